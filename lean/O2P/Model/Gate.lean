/-
M-Gate — gate trees over event types and the successor sets they admit (tel2puml/logic_detection.py:
the trees `calculate_logic_gates` returns; pm4py operators `X`, `+`, `O`).

* `outcomes g`: every successor set a gate tree can produce — XOR one child, AND all children, OR every
  non-empty subset of the children; a set is a sorted duplicate-free list.
* `domain n`: every gate tree over exactly the first `n` letters with ≥ 2 children per gate, operators
  alternating between levels, depth ≤ 3 — the quantifier of C06 — as unordered trees (children are
  the blocks of a set partition).
Core Lean only.
-/
namespace O2P.Gate

inductive Op where
  | and
  | or
  | xor
  deriving DecidableEq, Repr

inductive Gate where
  | leaf (a : String)
  | node (op : Op) (cs : List Gate)
  deriving Repr, Inhabited

/-! ### sets as sorted duplicate-free lists -/

def insertS (x : String) : List String → List String
  | [] => [x]
  | y :: ys => if x < y then x :: y :: ys else if x == y then y :: ys else y :: insertS x ys

def norm (s : List String) : List String := s.foldr insertS []

def union (a b : List String) : List String := norm (a ++ b)

def insertF (x : List String) (f : List (List String)) : List (List String) := if f.contains x then f else f ++ [x]

def dedupF (f : List (List String)) : List (List String) := f.foldl (fun acc x => insertF x acc) []

/-- one outcome from every family, united -/
def productAll : List (List (List String)) → List (List String)
  | [] => [[]]
  | f :: fs => f.flatMap fun a => (productAll fs).map fun b => union a b

def nonEmptySublists {α : Type} : List α → List (List α)
  | [] => []
  | x :: xs => [x] :: ((nonEmptySublists xs).map (x :: ·)) ++ nonEmptySublists xs

mutual
def outcomes : Gate → List (List String)
  | .leaf a => [[a]]
  | .node .xor cs => (outcomesL cs).flatten
  | .node .and cs => productAll (outcomesL cs)
  | .node .or cs => (nonEmptySublists (outcomesL cs)).flatMap productAll
def outcomesL : List Gate → List (List (List String))
  | [] => []
  | c :: cs => outcomes c :: outcomesL cs
end

/-- the family of successor sets of a gate tree -/
def family (g : Gate) : List (List String) := dedupF ((outcomes g).map norm)

def admits (g : Gate) (s : List String) : Bool := (family g).contains (norm s)

/-- the inferred tree admits every set of the source tree -/
def soundB (src inf : Gate) : Bool := (family src).all (admits inf)

/-- … and nothing more -/
def exactB (src inf : Gate) : Bool := soundB src inf && (family inf).all (admits src)

/-! ### the sub-class of C06's exactness clause -/

def isLeaf : Gate → Bool
  | .leaf _ => true
  | _ => false

def isOr : Gate → Bool
  | .node .or _ => true
  | _ => false

mutual
/-- every OR joins only plain events and no AND has two OR children -/
def inSubclass : Gate → Bool
  | .leaf _ => true
  | .node .or cs => cs.all isLeaf && inSubclassL cs
  | .node .and cs => (cs.filter isOr).length < 2 && inSubclassL cs
  | .node .xor cs => inSubclassL cs
def inSubclassL : List Gate → Bool
  | [] => true
  | c :: cs => inSubclass c && inSubclassL cs
end

mutual
def depth : Gate → Nat
  | .leaf _ => 0
  | .node _ cs => 1 + depthL cs
def depthL : List Gate → Nat
  | [] => 0
  | c :: cs => max (depth c) (depthL cs)
end

mutual
def leaves : Gate → List String
  | .leaf a => [a]
  | .node _ cs => leavesL cs
def leavesL : List Gate → List String
  | [] => []
  | c :: cs => leaves c ++ leavesL cs
end

mutual
/-- at least two children per gate and no child gate with its parent's operator -/
def alternating : Gate → Bool
  | .leaf _ => true
  | .node op cs => decide (2 ≤ cs.length) && cs.all (fun c => match c with
      | .node op2 _ => op2 != op
      | .leaf _ => true) && alternatingL cs
def alternatingL : List Gate → Bool
  | [] => true
  | c :: cs => alternating c && alternatingL cs
end

/-! ### the domain -/

/-- all partitions of a list into non-empty blocks; blocks keep the order of their first elements -/
def partitions {α : Type} : List α → List (List (List α))
  | [] => [[]]
  | x :: xs => (partitions xs).flatMap fun p =>
      ([x] :: p) :: (List.range p.length).map fun i => p.modify i (x :: ·)

def ops : List Op := [.and, .or, .xor]

/-- every way to turn the blocks into children: a singleton is a leaf, a larger block a gate of another
operator taken from `sub` (the trees one level shallower) -/
def childChoices (sub : Op → List String → List Gate) (op : Op) : List (List String) → List (List Gate)
  | [] => [[]]
  | b :: bs =>
    let first : List Gate := match b with
      | [a] => [.leaf a]
      | _ => (ops.filter (· != op)).flatMap fun op2 => sub op2 b
    first.flatMap fun c => (childChoices sub op bs).map fun rest => c :: rest

/-- all trees over exactly the events `evs` (≥ 2) whose root operator is `op`, gates alternating, with at most
`d` levels of gates -/
def treesWith : Nat → Op → List String → List Gate
  | 0, _, _ => []
  | d + 1, op, evs =>
    ((partitions evs).filter fun p => 2 ≤ p.length).flatMap fun p =>
      (childChoices (treesWith d) op p).map fun cs => .node op cs

def alphabet : List String := ["a", "b", "c", "d", "e", "f"]

/-- C06's quantifier: every gate tree over exactly the first `n` letters, depth ≤ 3, operators alternating -/
def domain (n : Nat) : List Gate := ops.flatMap fun op => treesWith 3 op (alphabet.take n)

end O2P.Gate

/-! ### `get_weighted_cover` (tel2puml/utils.py): the greedy cover used to find AND groups below an OR

Sets are duplicate-free lists.  Python's `max` over a set picks *some* maximal candidate (the iteration order of
a set of frozensets depends on the hash seed), so the model returns the outcomes of every choice. -/
namespace O2P.Gate

def interS (a b : List String) : List String := a.filter b.contains
def diffS (a b : List String) : List String := a.filter fun x => !b.contains x
def subsetS (a b : List String) : Bool := a.all b.contains
def sameS (a b : List String) : Bool := subsetS a b && subsetS b a

/-- `len(s & u) / len(s)**2 ≤ len(t & u) / len(t)**2`, compared exactly (the quotients of small integers are
distinct doubles exactly when they are distinct rationals) -/
def keyLe (u s t : List String) : Bool :=
  decide ((interS s u).length * (t.length * t.length) ≤ (interS t u).length * (s.length * s.length))

/-- the candidates `max(event_sets, key=…)` may return -/
def argmaxes (es : List (List String)) (u : List String) : List (List String) :=
  es.filter fun s => es.all fun t => keyLe u t s

/-- the `while universe:` loop under every choice; `none` = the function returns `None` -/
def greedy : Nat → List (List String) → List String → List (List String) → List (Option (List (List String)))
  | 0, _, _, _ => [none]
  | fuel + 1, es, u, acc =>
    if u.isEmpty then [some acc] else
    (argmaxes es u).flatMap fun s =>
      if (diffS u s).length == u.length then [none] else greedy fuel es (diffS u s) (acc ++ [s])

/-- `for cover_set in weighted_cover: if event_set & cover_set == cover_set: event_set -= cover_set` -/
def reduceBy (cover : List (List String)) (e : List String) : List String :=
  cover.foldl (fun e c => if subsetS c e then diffS e c else e) e

def disjointS (a b : List String) : Bool := (interS a b).isEmpty

def pairwiseDisjoint : List (List String) → Bool
  | [] => true
  | c :: cs => cs.all (disjointS c) && pairwiseDisjoint cs

def checkCover (es cover : List (List String)) : Bool :=
  es.all (fun e => (reduceBy cover e).isEmpty) && pairwiseDisjoint cover

/-- every outcome of `get_weighted_cover(event_sets, universe)`; the event sets are non-empty (an empty one makes
the Python code divide by zero) -/
def weightedCover (es0 : List (List String)) (u : List String) : List (Option (List (List String))) :=
  let es := es0.filter fun s => !sameS s u
  if es.isEmpty then [none] else
  (greedy (u.length + 1) es u []).map fun r => r.bind fun c => if checkCover es c then some c else none

end O2P.Gate

/-! ### OR inference on the miner's tree (`infer_or_gate_from_node`, `check_is_or_operator`, logic_detection.py 248-331)

The raw process tree has optional branches `X(tau, …)`.  Below a parallel node they are turned into an OR: into an OR
of everything when some observed set shows the mandatory part without any optional part, into `AND(mandatory,
OR(optional))` otherwise.  Parent pointers of the Python objects are not modelled (the structure is). -/
namespace O2P.Gate

inductive POp where
  | and | or | xor | other
  deriving DecidableEq, Repr

inductive PTree where
  | leaf (a : String)
  | tau
  | node (op : POp) (cs : List PTree)
  deriving Repr, Inhabited

def PTree.isTau : PTree → Bool
  | .tau => true
  | _ => false

mutual
/-- `get_non_operator_successor_labels`: the labels of the leaves below (a tau leaf has the label `None`, written "") -/
def PTree.labels : PTree → List String
  | .leaf a => [a]
  | .tau => [""]
  | .node _ cs => PTree.labelsL cs
def PTree.labelsL : List PTree → List String
  | [] => []
  | c :: cs => c.labels ++ PTree.labelsL cs
end

/-- how `infer_or_gate_from_node` sorts the children of a parallel node: (optional branches, mandatory ones);
a child with any other operator is mandatory (repaired: c6e9ec1 — it used to land in neither list) -/
def classify : List PTree → List PTree × List PTree
  | [] => ([], [])
  | c :: cs =>
    let (t, n) := classify cs
    match c with
    | .leaf _ => (t, c :: n)
    | .tau => (t, c :: n)
    | .node .xor gcs => if gcs.any PTree.isTau then (c :: t, n) else (t, c :: n)
    | .node _ _ => (t, c :: n)

def grandchildrenOf : PTree → List PTree
  | .node _ gcs => gcs.filter fun g => !g.isTau
  | _ => []

/-- `check_is_or_operator` -/
def checkIsOr (sets : List (List String)) (nonTau removed : List PTree) : Bool :=
  nonTau.isEmpty ||
  sets.any fun s =>
    !(interS (PTree.labelsL nonTau) s).isEmpty && (interS (PTree.labelsL removed) s).isEmpty

/-- `infer_or_gate_from_node` on one node -/
def inferOrNode (sets : List (List String)) : PTree → PTree
  | .node .and cs =>
    let (tauC, nonTau) := classify cs
    if tauC.isEmpty then .node .and cs else
    let removed := tauC.flatMap grandchildrenOf
    if checkIsOr sets nonTau removed then
      if nonTau.length > 1 then .node .or (removed ++ [.node .and nonTau]) else .node .or (removed ++ nonTau)
    else .node .and (nonTau ++ [.node .or removed])
  | t => t

mutual
/-- `get_extended_or_gates_from_process_tree`: the node first, then its (new) children -/
def inferOrAll (sets : List (List String)) : Nat → PTree → PTree
  | 0, t => t
  | fuel + 1, t =>
    match inferOrNode sets t with
    | .node op cs => .node op (inferOrAllL sets fuel cs)
    | t' => t'
def inferOrAllL (sets : List (List String)) : Nat → List PTree → List PTree
  | _, [] => []
  | fuel, c :: cs => inferOrAll sets fuel c :: inferOrAllL sets fuel cs
end

end O2P.Gate

/-! ### the rest of the post-processing (`filter_defunct_or_gates`, `process_missing_and_gates`,
`remove_defunct_sequence_logic`) and the whole pipeline on a raw miner tree -/
namespace O2P.Gate

def PTree.opOf : PTree → Option POp
  | .node op _ => some op
  | _ => none

def PTree.children : PTree → List PTree
  | .node _ cs => cs
  | _ => []

mutual
def PTree.beq : PTree → PTree → Bool
  | .leaf a, .leaf b => a == b
  | .tau, .tau => true
  | .node o1 c1, .node o2 c2 => o1 == o2 && PTree.beqL c1 c2
  | _, _ => false
def PTree.beqL : List PTree → List PTree → Bool
  | [], [] => true
  | a :: as, b :: bs => a.beq b && PTree.beqL as bs
  | _, _ => false
end

/-- `list.remove(x)`: drop the first element equal to `x` -/
def removeFirst (x : PTree) : List PTree → List PTree
  | [] => []
  | y :: ys => if y.beq x then ys else y :: removeFirst x ys

mutual
/-- `filter_defunct_or_gates`: the children are visited by position while an OR child of an OR node is replaced, in
that very list, by its own children appended at the end (so the element after a removed one is skipped and the
appended ones are visited later) -/
def filterDefunct : Nat → PTree → PTree
  | 0, t => t
  | fuel + 1, .node op cs => .node op (filterLoop fuel op 0 cs)
  | _, t => t
def filterLoop : Nat → POp → Nat → List PTree → List PTree
  | 0, _, _, cs => cs
  | fuel + 1, pop, i, cs =>
    match cs[i]? with
    | none => cs
    | some c =>
      let c' := filterDefunct fuel c
      let cs1 := cs.set i c'
      if c'.opOf == some .or && pop == .or then
        filterLoop fuel pop (i + 1) (removeFirst c' cs1 ++ c'.children)
      else filterLoop fuel pop (i + 1) cs1
end

def leafLabel? : PTree → Option String
  | .leaf a => some a
  | _ => none

mutual
/-- `process_missing_and_gates` under every outcome of the cover step; every observed set counts with the part of it
that lies among the gate's events (repaired: dcf1496 — only the sets lying wholly inside used to count) -/
def missingAnd : Nat → List (List String) → PTree → List PTree
  | 0, _, t => [t]
  | fuel + 1, sets, .node op cs =>
    let rebuilt : List (List PTree) :=
      if op == .or then
        match cs.mapM leafLabel? with
        | some uni =>
          let rec_ := ((sets.map fun s => interS s uni).filter fun s => !s.isEmpty).eraseDups
          (weightedCover rec_ uni).map fun r => match r with
            | some cover => cover.map fun p => match p with
              | [a] => PTree.leaf a
              | _ => PTree.node .and (p.map PTree.leaf)
            | none => cs
        | none => [cs]
      else [cs]
    rebuilt.flatMap fun cs' => (missingAndL fuel sets cs').map fun cs'' => PTree.node op cs''
  | _, _, t => [t]
def missingAndL : Nat → List (List String) → List PTree → List (List PTree)
  | _, _, [] => [[]]
  | fuel, sets, c :: cs => (missingAnd fuel sets c).flatMap fun c' => (missingAndL fuel sets cs).map fun cs' => c' :: cs'
end

/-- `reduce_process_tree_to_preferred_logic_gates` on the raw tree below the start event: every outcome -/
def postProcess (sets : List (List String)) (raw : PTree) : List PTree :=
  missingAnd 50 sets (filterDefunct 200 (inferOrAll sets 50 raw))

end O2P.Gate

namespace O2P.Gate

mutual
/-- a processed tree as a gate tree of the judge (a remaining `tau` leaf counts as an event named "tau"; a node of
another operator is not a gate) -/
def PTree.toGate : PTree → Option Gate
  | .leaf a => some (.leaf a)
  | .tau => some (.leaf "tau")
  | .node .and cs => (PTree.toGateL cs).map (.node .and)
  | .node .or cs => (PTree.toGateL cs).map (.node .or)
  | .node .xor cs => (PTree.toGateL cs).map (.node .xor)
  | .node .other _ => none
def PTree.toGateL : List PTree → Option (List Gate)
  | [] => some []
  | c :: cs => match c.toGate, PTree.toGateL cs with
    | some g, some gs => some (g :: gs)
    | _, _ => none
end

/-- the miner's rendering of "all of `N`, any of `R`" over plain events -/
def rawLeaves (N R : List String) : PTree :=
  .node .and (N.map PTree.leaf ++ R.map fun r => PTree.node .xor [.tau, .leaf r])

end O2P.Gate

/-! ### the hypotheses of the whole-tree OR-inference theorem (`or_inference_all_sound`), as executable tests -/
namespace O2P.Gate

-- `canEmpty`: a sound test for "can produce the empty set"
mutual
def canEmpty : PTree → Bool
  | .leaf _ => false
  | .tau => true
  | .node .xor cs => canEmptyAny cs
  | .node .and cs => canEmptyAll cs
  | .node .or cs => canEmptyAny cs
  | .node .other _ => false
def canEmptyAny : List PTree → Bool
  | [] => false
  | c :: cs => canEmpty c || canEmptyAny cs
def canEmptyAll : List PTree → Bool
  | [] => true
  | c :: cs => canEmpty c && canEmptyAll cs
end

/-- labels that are event names (the label of a tau leaf is "") -/
def NE (l : List String) : List String := l.filter (· != "")

/-- some observed set shows none of the labels `L`: a node over `L` may be asked for the empty set -/
def missAny (F : List (List String)) (L : List String) : Bool := F.any fun s0 => (interS s0 L).isEmpty

/-- at a parallel node with optional branches: no mandatory child can produce the empty set, mandatory children share
no label with the optional branches, and — if the node may be asked for the empty set (`strict`, and some observed set
shows none of its events) — there is a mandatory child (otherwise the rewritten node `O(r…)` would have to produce the
empty set, and cannot) -/
def wfAnd (strict : Bool) (F : List (List String)) (cs : List PTree) : Bool :=
  (classify cs).1.isEmpty ||
    ((classify cs).2.all (fun c => !canEmpty c) &&
     disjointS (PTree.labelsL (classify cs).2) (PTree.labelsL ((classify cs).1.flatMap grandchildrenOf)) &&
     (!strict || !(classify cs).2.isEmpty || !missAny F (PTree.labelsL cs)))

mutual
/-- `strict`: the node's parent may ask it for the empty set.  False at the top; below a parallel or an OR node a child
is asked whenever an observed set shows none of its events (the test is made at the node itself); a choice hands its own
set to one child, so below a choice the flag is the choice's own, and — for a choice without a silent alternative —
only if some observed set shows none of the choice's events -/
def wfT (strict : Bool) (F : List (List String)) : PTree → Bool
  | .leaf _ => true
  | .tau => true
  | .node .and cs => wfAnd strict F cs && wfL true F cs
  | .node .xor cs => wfL (strict && (cs.any PTree.isTau || missAny F (PTree.labelsL cs))) F cs
  | .node .or cs => wfL true F cs
  | .node .other cs => wfL true F cs
def wfL (strict : Bool) (F : List (List String)) : List PTree → Bool
  | [] => true
  | c :: cs => wfT strict F c && wfL strict F cs
end

end O2P.Gate

/-! ### what a raw miner tree produces, executably (the hypothesis `t.sem s` of `post_process_sound` as a test) -/
namespace O2P.Gate

mutual
def PTree.outs : PTree → List (List String)
  | .leaf a => [[a]]
  | .tau => [[]]
  | .node .xor cs => (PTree.outsL cs).flatten
  | .node .and cs => productAll (PTree.outsL cs)
  | .node .or cs => (nonEmptySublists (PTree.outsL cs)).flatMap productAll
  | .node .other _ => []
def PTree.outsL : List PTree → List (List (List String))
  | [] => []
  | c :: cs => c.outs :: PTree.outsL cs
end

/-- the tree produces the set `s` (up to order and repetition) -/
def PTree.produces (t : PTree) (s : List String) : Bool := t.outs.any fun o => sameS s o

end O2P.Gate

