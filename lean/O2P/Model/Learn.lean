import O2P.Generated.Consts
/-
M4 `Learn` — the algebraic core of pv2puml: how job event sequences are turned into the per-event-type
families of successor / predecessor multisets (tel2puml/pv_to_puml/data_ingestion.py, the janus
`GraphSolution.from_event_list` entry point as the stand-in reads it, tel2puml/events.py `EventSet`,
`Event.update_event_sets`, `update_in_event_sets`), the model file (events.py 599-713) and the cache of
the gate tree (events.py 250-286).

A multiset of event types is a list up to permutation; a family is a list of such lists without two
permutation-equal members.  Core Lean only.
-/
namespace O2P.Learn

structure PV where
  jobId : String
  eventId : String
  typ : String
  prev : List String
  deriving DecidableEq, Repr

abbrev ESet := List String

/-- the learner's `Event`: type, successor family, predecessor family -/
structure Ev where
  typ : String
  outs : List ESet
  ins : List ESet
  deriving DecidableEq, Repr

abbrev Model := List Ev

def dummyStart : String := Gen.dummyStart

/-! ### one job as a graph (`GraphSolution.from_event_list`) -/

def nodupS : List String → Bool
  | [] => true
  | x :: xs => !xs.contains x && nodupS xs

/-- first occurrences, in order -/
def dedupS : List String → List String
  | [] => []
  | t :: ts => t :: (dedupS ts).filter (· != t)

/-- every previous id names an event of the job, and event ids are distinct; otherwise the code raises
(`KeyError`) or silently merges events, and the model answers `none` -/
def wfJob (job : List PV) : Bool :=
  (job.all fun e => e.prev.all fun p => job.any (·.eventId == p)) &&
  nodupS (job.map (·.eventId))

/-- types of the events that list `e` among their previous events, once per mention, in job order -/
def postTypes (job : List PV) (e : PV) : ESet :=
  job.flatMap fun s => (s.prev.filter (· == e.eventId)).map fun _ => s.typ

def typeOf (job : List PV) (id : String) : String :=
  match job.find? (·.eventId == id) with
  | some e => e.typ
  | none => ""

/-- types of the previous events of `e`; a start event has the dummy start as its only predecessor -/
def prevTypes (job : List PV) (e : PV) : ESet :=
  if e.prev.isEmpty then [dummyStart] else e.prev.map (typeOf job)

/-- the events without predecessor, which the dummy start event precedes -/
def startTypes (job : List PV) : ESet := (job.filter (·.prev.isEmpty)).map (·.typ)

/-! ### accumulating (`Event.update_event_sets`, `update_in_event_sets`) -/

def hasSet (fam : List ESet) (S : ESet) : Bool := fam.any (·.isPerm S)

/-- `set.add(EventSet(events))`, nothing for an empty list -/
def addSet (fam : List ESet) (S : ESet) : List ESet :=
  if S.isEmpty || hasSet fam S then fam else fam ++ [S]

def ensure (m : Model) (t : String) : Model :=
  if m.any (·.typ == t) then m else m ++ [⟨t, [], []⟩]

def updOut (m : Model) (t : String) (S : ESet) : Model :=
  (ensure m t).map fun e => if e.typ == t then { e with outs := addSet e.outs S } else e

def updIn (m : Model) (t : String) (S : ESet) : Model :=
  (ensure m t).map fun e => if e.typ == t then { e with ins := addSet e.ins S } else e

/-- `update_and_create_events_from_graph_solution` for one job with the dummy start added -/
def ingestJob (m : Model) (job : List PV) : Model :=
  let m1 := job.foldl (fun acc e => updIn (updOut acc e.typ (postTypes job e)) e.typ (prevTypes job e)) m
  updOut m1 dummyStart (startTypes job)

/-- `update_and_create_events_from_clustered_pvevents(jobs, add_dummy_start=True, events=m)` -/
def ingest (m : Model) (jobs : List (List PV)) : Model := jobs.foldl ingestJob m

/-! ### the model file -/

/-- `EventSet.to_event_set_count_input_list`: distinct types with their counts, first-seen order -/
def toCounts (S : ESet) : List (String × Nat) := (dedupS S).map fun t => (t, S.count t)

/-- `EventSet([type for set in list for _ in range(count)])` -/
def fromCounts (cs : List (String × Nat)) : ESet := cs.flatMap fun (t, n) => List.replicate n t

structure EvJson where
  typ : String
  outs : List (List (String × Nat))
  ins : List (List (String × Nat))
  deriving Repr

def toJson (m : Model) : List EvJson := m.map fun e => ⟨e.typ, e.outs.map toCounts, e.ins.map toCounts⟩

/-- `event_inputs_to_events`: `none` when an event type occurs twice (ValueError) -/
def fromJson (js : List EvJson) : Option Model :=
  if !nodupS (js.map (·.typ)) then none
  else some (js.map fun j =>
    ⟨j.typ, (j.outs.map fromCounts).foldl addSetRaw [], (j.ins.map fromCounts).foldl addSetRaw []⟩)
where
  /-- `set.add` without the empty-list guard of `update_event_sets` (the loader adds whatever the file holds) -/
  addSetRaw (fam : List ESet) (S : ESet) : List ESet := if hasSet fam S then fam else fam ++ [S]

/-! ### the cache of the gate tree -/

/-- an `Event` with its cached gate tree; `infer` stands for `calculate_logic_gates` -/
structure Cached (Tree : Type) where
  outs : List ESet
  tree : Option Tree
  stale : Bool

namespace Cached
variable {Tree : Type}

def fresh : Cached Tree := ⟨[], none, false⟩

/-- `update_event_sets` -/
def update (c : Cached Tree) (S : ESet) : Cached Tree :=
  if S.isEmpty then c else { c with outs := addSet c.outs S, stale := true }

/-- the `logic_gate_tree` property: recompute when stale -/
def read (infer : List ESet → Tree) (c : Cached Tree) : Cached Tree × Option Tree :=
  if c.stale then ({ c with tree := some (infer c.outs), stale := false }, some (infer c.outs))
  else (c, c.tree)

/-- `remove_event_type_from_event_sets` -/
def removeType (c : Cached Tree) (t : String) : Cached Tree :=
  { c with outs := c.outs.filter fun S => !S.contains t, stale := true }

/-- `event_inputs_to_events` after fix bfaab07: a loaded event with successor sets is stale -/
def load (outs : List ESet) : Cached Tree := ⟨outs, none, !outs.isEmpty⟩

/-- the loader before fix bfaab07 -/
def loadOld (outs : List ESet) : Cached Tree := ⟨outs, none, false⟩

end Cached

end O2P.Learn
