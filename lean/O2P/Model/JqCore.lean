/-
M-JqCore — a small-step-free, denotational semantics of the fragment of jq that
`json_jq_converter.py` emits, and the emitter itself.

* `Expr`: identity, variables, literals, `.k`, `.[]`, `|`, `,`, `try … catch <literal>`, `try …`, `[…]`,
  `{(k): v}`, `{"f": $x, …}`, `select`, `add`, `tostring`, `flatten`, `join`, `any(f)`, `all(f)`, `==`, `!=`,
  `and`, `if`, `//`, `+`, `… as $x | …`.
* `eval e env input : Res` — the outputs in order, and whether the stream ended in an error (jq keeps the
  outputs produced before an error; `try` cuts the error off).
* variables are numbered by binding level: `… as $x | body` evaluates `body` with the value appended to
  the environment, so the environment of the loop variables is exactly the slot list of `O2P.Jq.bindings`.
* `emitProgram`: the query `jq_field_mapping_to_jq_query` builds for a `Program`, as an `Expr`;
  `emitText`: the same query as the text the Python code builds (variable *names* as in the source), compared
  character by character with the real compiler's output by the correspondence check.

Deliberately not modelled (never reached by an emitted query; stated in DESIGN.md): the order in which jq
enumerates the cartesian product of several multi-output sub-expressions of one operator, error *messages*,
numbers other than integers, `join` on non-strings.
Core Lean only.
-/
import O2P.Model.Jq
namespace O2P.Jq

/-- outputs so far, and whether the stream ended with an error -/
structure Res where
  outs : List Json
  err : Bool
  deriving Repr

def Res.ok (l : List Json) : Res := ⟨l, false⟩
def Res.fail : Res := ⟨[], true⟩

/-- feed every value to `f` in turn; the first error ends the stream -/
def bindOuts : List Json → (Json → Res) → Res
  | [], _ => .ok []
  | x :: xs, f =>
    let a := f x
    if a.err then ⟨a.outs, true⟩ else
    let b := bindOuts xs f
    ⟨a.outs ++ b.outs, b.err⟩

def bindRes (r : Res) (f : Json → Res) : Res :=
  let b := bindOuts r.outs f
  if b.err then b else ⟨b.outs, r.err⟩

/-- `a + b` of jq; `none` = error -/
def plusJ : Json → Json → Option Json
  | .null, x => some x
  | x, .null => some x
  | .num a, .num b => some (.num (a + b))
  | .str a, .str b => some (.str (a ++ b))
  | .arr a, .arr b => some (.arr (a ++ b))
  | .obj a, .obj b => some (.obj ((a.filter fun p => !(b.any fun q => q.1 == p.1)) ++ b))
  | _, _ => none

/-- `add`: `reduce .[] as $x (null; . + $x)` -/
def addAll : List Json → Option Json
  | l => l.foldl (fun acc x => acc.bind fun a => plusJ a x) (some .null)

def strOf? : Json → Option String
  | .str s => some s
  | _ => none

inductive Expr where
  | id
  | var (i : Nat)
  | lit (j : Json)
  | field (e : Expr) (k : String)
  | iter (e : Expr)
  | pipe (a b : Expr)
  | comma (a b : Expr)
  | tryCatch (a : Expr) (j : Json)
  | tryE (a : Expr)
  | arr (e : Expr)
  | objDyn (k v : Expr)
  | objVars (kvs : List (String × Nat))
  | select (c : Expr)
  | add
  | tostring
  | flatten
  | join (sep : String)
  | anyF (f : Expr)
  | allF (f : Expr)
  | eq (a b : Expr)
  | neq (a b : Expr)
  | and (a b : Expr)
  | ite (c t e : Expr)
  | alt (a b : Expr)
  | plus (a b : Expr)
  | bind (e body : Expr)
  deriving Repr, Inhabited

/-- `any(f)` / `all(f)` over the elements: the verdicts of `f` on each element, `none` = error -/
def verdicts (f : Json → Res) : List Json → Option (List Bool)
  | [] => some []
  | x :: xs =>
    let r := f x
    if r.err then none else (verdicts f xs).map fun vs => r.outs.any truthy :: vs

def eval : Expr → List Json → Json → Res
  | .id, _, inp => .ok [inp]
  | .var i, env, _ => match env[i]? with
    | some v => .ok [v]
    | none => .fail                      -- an unbound variable does not compile
  | .lit j, _, _ => .ok [j]
  | .field e k, env, inp => bindRes (eval e env inp) fun v => match field k v with
    | some w => .ok [w]
    | none => .fail
  | .iter e, env, inp => bindRes (eval e env inp) fun v => match iter v with
    | some l => .ok l
    | none => .fail
  | .pipe a b, env, inp => bindRes (eval a env inp) fun v => eval b env v
  | .comma a b, env, inp =>
    let ra := eval a env inp
    if ra.err then ra else
    let rb := eval b env inp
    ⟨ra.outs ++ rb.outs, rb.err⟩
  | .tryCatch a j, env, inp =>
    let ra := eval a env inp
    if ra.err then .ok (ra.outs ++ [j]) else ra
  | .tryE a, env, inp => .ok (eval a env inp).outs
  | .arr e, env, inp =>
    let r := eval e env inp
    if r.err then .fail else .ok [.arr r.outs]
  | .objDyn k v, env, inp => bindRes (eval k env inp) fun kk => match kk with
    | .str s => bindRes (eval v env inp) fun vv => .ok [.obj [(s, vv)]]
    | _ => .fail                         -- object keys must be strings
  | .objVars kvs, env, _ =>
    match kvs.mapM fun (p : String × Nat) => (env[p.2]?).map fun v => (p.1, v) with
    | some o => .ok [.obj o]
    | none => .fail
  | .select c, env, inp => bindRes (eval c env inp) fun b => if truthy b then .ok [inp] else .ok []
  | .add, _, inp => match (iter inp).bind addAll with
    | some v => .ok [v]
    | none => .fail
  | .tostring, _, inp => .ok [.str (tostring inp)]
  | .flatten, _, inp => match inp with
    | .arr l => .ok [.arr (flattenL l)]
    | _ => .fail
  | .join sep, _, inp => match inp with
    | .arr l => match l.mapM strOf? with
      | some ss => .ok [.str (sep.intercalate ss)]
      | none => .fail                    -- not reached: the emitted queries join outputs of `tostring`
    | _ => .fail
  | .anyF f, env, inp => match (iter inp).bind (verdicts (eval f env)) with
    | some vs => .ok [.bool (vs.any (·))]
    | none => .fail
  | .allF f, env, inp => match (iter inp).bind (verdicts (eval f env)) with
    | some vs => .ok [.bool (vs.all (·))]
    | none => .fail
  | .eq a b, env, inp => bindRes (eval a env inp) fun x => bindRes (eval b env inp) fun y => .ok [.bool (x.beq y)]
  | .neq a b, env, inp => bindRes (eval a env inp) fun x => bindRes (eval b env inp) fun y => .ok [.bool (!x.beq y)]
  | .and a b, env, inp => bindRes (eval a env inp) fun x =>
      if truthy x then bindRes (eval b env inp) fun y => .ok [.bool (truthy y)] else .ok [.bool false]
  | .ite c t e, env, inp => bindRes (eval c env inp) fun b => if truthy b then eval t env inp else eval e env inp
  | .alt a b, env, inp =>
    let good := (eval a env inp).outs.filter truthy    -- errors of the left side are suppressed
    if good.isEmpty then eval b env inp else .ok good
  | .plus a b, env, inp => bindRes (eval a env inp) fun x => bindRes (eval b env inp) fun y => match plusJ x y with
    | some v => .ok [v]
    | none => .fail
  | .bind e body, env, inp => bindRes (eval e env inp) fun v => eval body (env ++ [v]) inp

/-! ### the emitter (`build_base_variable_jq_query`, `get_jq_for_field_spec`, `get_jq_using_field_mapping`) -/

/-- `$v.a.b.c` -/
def pathExpr (base : Expr) : List String → Expr
  | [] => base
  | k :: ks => pathExpr (.field base k) ks

/-- `(try $p.chunk.[] catch null)` -/
def loopExpr (parentSlot : Nat) (chunk : List String) : Expr :=
  .tryCatch (.iter (pathExpr (.var parentSlot) chunk)) .null

def leafExpr : Leaf → Expr
  | .plain s p => .tryCatch (pathExpr (.var s) p) .null
  | .lookup s a k vp kv =>
    .tryCatch
      (.pipe (.pipe
        (.arr (.pipe (.pipe (.iter (pathExpr (.var s) a)) (.select (.tryE (pathExpr .id k))))
                     (.objDyn (pathExpr .id k) (pathExpr .id vp))))
        .add) (.field .id kv))
      .null

/-- `$a // $b // $c` over the variables at levels `base, base+1, …` -/
def altVars (base : Nat) : Nat → Expr
  | 0 => .lit .null                       -- not emitted: the Python code rejects an empty priority list
  | 1 => .var base
  | n + 2 => .alt (.var base) (altVars (base + 1) (n + 1))

/-- `(A | (if . == null then null else (. | tostring) end))` -/
def strPart (a : Expr) : Expr :=
  .pipe a (.ite (.eq .id (.lit .null)) (.lit .null) (.pipe .id .tostring))

/-- the comma list of the parts; `sizes` are the numbers of alternatives of the parts -/
def commaList : List Expr → Expr
  | [] => .lit .null                      -- not emitted
  | [e] => e
  | e :: es => .comma e (commaList es)

def partExprs (wrap : Expr → Expr) : Nat → List Nat → List Expr
  | _, [] => []
  | base, n :: ns => wrap (altVars base n) :: partExprs wrap (base + n) ns

/-- `([p1,p2,…] | if any(. == null) then null else join("_") end)` -/
def stringJoin (base : Nat) (sizes : List Nat) : Expr :=
  .pipe (.arr (commaList (partExprs strPart base sizes)))
    (.ite (.anyF (.eq .id (.lit .null))) (.lit .null) (.join "_"))

def plusList : List Expr → Expr
  | [] => .lit (.arr [])                  -- not emitted
  | [e] => e
  | e :: es => .plus e (plusList es)

/-- `([A] + [B] + …) | flatten | (if (. | all(. == null)) and . != [] then null else . end)` -/
def arrayJoin (base : Nat) (sizes : List Nat) : Expr :=
  .pipe (.pipe (plusList (partExprs .arr base sizes)) .flatten)
    (.ite (.and (.pipe .id (.allF (.eq .id (.lit .null)))) (.neq .id (.lit (.arr [])))) (.lit .null) .id)

/-- bind the leaves of a field one after the other, then the joined value -/
def bindAll : List Expr → Expr → Expr
  | [], body => body
  | e :: es, body => .bind e (bindAll es body)

/-- the leaves of a field, flattened in emission order -/
def Spec.leaves (s : Spec) : List Leaf := s.parts.flatten

def Spec.sizes (s : Spec) : List Nat := s.parts.map List.length

/-- emit the fields from level `lvl` on; `outs` collects (field name, level of its `$outN`) -/
def emitFields : Nat → List (String × Spec) → List (String × Nat) → Expr
  | _, [], outs => .objVars outs
  | lvl, (n, s) :: rest, outs =>
    let k := s.leaves.length
    let joined := if s.isArray then arrayJoin lvl s.sizes else stringJoin lvl s.sizes
    bindAll (s.leaves.map leafExpr)
      (.bind joined (emitFields (lvl + k + 1) rest (outs ++ [(n, lvl + k)])))

def emitLoops : List (Nat × List String) → Expr → Expr
  | [], body => body
  | d :: rest, body => .bind (loopExpr d.1 d.2) (emitLoops rest body)

/-- the whole query: `. as $var0 | <loops> | <fields> | {…}` -/
def emitProgram (p : Program) : Expr :=
  .bind .id (emitLoops p.order (emitFields (p.order.length + 1) p.fields []))

/-! ### well-formed programs -/

def Leaf.slot' : Leaf → Nat
  | .plain s _ => s
  | .lookup s _ _ _ _ => s

/-- every loop hangs below a variable that is already bound -/
def wfOrder : Nat → List (Nat × List String) → Bool
  | _, [] => true
  | n, d :: rest => decide (d.1 < n) && wfOrder (n + 1) rest

def wfFieldsB (n : Nat) (fields : List (String × Spec)) : Bool :=
  fields.all fun f => !f.2.parts.isEmpty && f.2.parts.all fun p => !p.isEmpty && p.all fun l => decide (l.slot' < n)

/-- what the emitted query needs to compile and to mean what the model says: every loop hangs below an
earlier variable, every leaf reads an existing loop variable, no field or part is empty -/
def wfProgram (p : Program) : Bool :=
  wfOrder 1 p.order && wfFieldsB (p.order.length + 1) p.fields

/-! ### the query as text (variable names as in the source), compared with the real compiler's output -/

def varName (v : Nat) : String := "$var" ++ toString v

/-- `build_base_variable_jq_query`: the loop variables in depth-first order of the trie -/
def emitBaseText (t : Trie) : String :=
  let orderVars := Trie.dfs t (t.length + 1) 0
  orderVars.foldl (fun acc v =>
    let d := t.getD (v - 1) (0, "")
    let insert := if d.2 == "" then "" else d.2 ++ "."
    acc ++ " | (try " ++ varName d.1 ++ "." ++ insert ++ "[] catch null) as " ++ varName v) (". as " ++ varName 0)

/-- the bound expression of one alternative (`get_jq_for_field_spec`, inner loop) -/
def emitLeafText : Leaf → String
  | .plain v p => "(try " ++ varName v ++ "." ++ ".".intercalate p ++ " catch null)"
  | .lookup v a k vp kv =>
    "(try ([" ++ varName v ++ "." ++ ".".intercalate a ++ ".[] | select(try ." ++ ".".intercalate k ++
      ") | {(." ++ ".".intercalate k ++ "): ." ++ ".".intercalate vp ++ "}] | add | .\"" ++ kv ++ "\") catch null)"

def emitJoinText (isArray : Bool) (names : List (List String)) : String :=
  if isArray then
    "(" ++ " + ".intercalate (names.map fun ns => "[" ++ "//".intercalate ns ++ "]") ++
      ") | flatten | (if (. | all(. == null)) and . != [] then null else . end)"
  else
    "([" ++ ",".intercalate (names.map fun ns =>
        "(" ++ " // ".intercalate ns ++ " | (if . == null then null else (. | tostring) end))") ++
      "] | if any(. == null) then null else join(\"_\") end)"

/-- ` | … as $outIconcatPJ … | (…) as $outI` for field number `i` -/
def emitFieldText (i : Nat) (s : Spec) : String :=
  let out := "$out" ++ toString i
  let named : List (List (String × Leaf)) := s.parts.zipIdx.map fun (alts, pi) =>
    alts.zipIdx.map fun (l, j) => (out ++ "concat" ++ toString pi ++ toString j, l)
  let binds := named.flatten.foldl (fun acc (nm, l) => acc ++ " | " ++ emitLeafText l ++ " as " ++ nm) ""
  binds ++ " | (" ++ emitJoinText s.isArray (named.map (·.map (·.1))) ++ ") as " ++ out

/-- `jq_field_mapping_to_jq_query` on the normalised mapping -/
def emitText (m : List (String × FieldSpecN)) : String :=
  let (t, fs) := compileFields [] m
  emitBaseText t ++
    String.join (fs.zipIdx.map fun ((_, s), i) => emitFieldText i s) ++
    " | {" ++ ",".intercalate (fs.zipIdx.map fun ((n, _), i) => " \"" ++ n ++ "\": $out" ++ toString i) ++ "}"

/-- run a query on a document -/
def runQuery (e : Expr) (doc : Json) : Res := eval e [] doc

end O2P.Jq
