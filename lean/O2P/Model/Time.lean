/-
M3 `Time` — the two timestamp converters of otel2puml.

* `unix_nano_to_pv_string` (tel2puml/utils.py): `n ↦ float(n) / 1e9 ↦ datetime.fromtimestamp(·, UTC)
  ↦ strftime(fmt)`.  `fromtimestamp` is CPython's `_PyTime_DoubleToDenominator`: `modf`, multiply the
  fraction by 1e6, round half to even, carry.  The binary64 steps are modelled exactly on integers.
* `convert_timestamp_to_unix_nano` (tel2puml/pv_to_tel.py, after the `fix:` commit): parse the string,
  whole seconds and microseconds since the epoch by integer arithmetic, times 1000.

Core Lean only (no Mathlib) so that the driver can link it.  The arithmetic of
`convert_timestamp_to_unix_nano` and the divisor of `unix_nano_to_pv_string` come from
`O2P.Generated.Time`, which the translator rewrites from /repo on every run.
-/
import O2P.Generated.Time
namespace O2P.Time

/-! ### calendar -/

/-- Hinnant's `civil_from_days`, days counted from 1970-01-01 (only non-negative days occur). -/
def civilFromDays (z0 : Nat) : Nat × Nat × Nat :=
  let z := z0 + 719468
  let era := z / 146097
  let doe := z % 146097
  let yoe := (doe - doe / 1460 + doe / 36524 - doe / 146096) / 365
  let y := yoe + era * 400
  let doy := doe - (365 * yoe + yoe / 4 - yoe / 100)
  let mp := (5 * doy + 2) / 153
  let d := doy - (153 * mp + 2) / 5 + 1
  let m := if mp < 10 then mp + 3 else mp - 9
  (if m ≤ 2 then y + 1 else y, m, d)

/-- Hinnant's `days_from_civil` for dates on or after 1970-01-01. -/
def daysFromCivil (y0 m d : Nat) : Nat :=
  let y := if m ≤ 2 then y0 - 1 else y0
  let era := y / 400
  let yoe := y % 400
  let doy := (153 * (if m > 2 then m - 3 else m + 9) + 2) / 5 + d - 1
  let doe := yoe * 365 + yoe / 4 - yoe / 100 + doy
  era * 146097 + doe - 719468

def isLeap (y : Nat) : Bool := (y % 4 == 0 && y % 100 != 0) || y % 400 == 0

def daysInMonth (y m : Nat) : Nat :=
  if m == 2 then (if isLeap y then 29 else 28)
  else if m == 4 || m == 6 || m == 9 || m == 11 then 30 else 31

/-- Broken-down UTC time with microseconds. -/
structure Civil where
  y : Nat
  mo : Nat
  d : Nat
  h : Nat
  mi : Nat
  s : Nat
  us : Nat
  deriving DecidableEq, Repr

/-- What `datetime` accepts (restricted to years the model covers). -/
def Civil.valid (c : Civil) : Bool :=
  1970 ≤ c.y && c.y ≤ 9999 && 1 ≤ c.mo && c.mo ≤ 12 && 1 ≤ c.d && c.d ≤ daysInMonth c.y c.mo &&
  c.h < 24 && c.mi < 60 && c.s < 60 && c.us < 1000000

/-- microseconds since the epoch ↦ broken-down time -/
def toCivil (k : Nat) : Civil :=
  let us := k % 1000000
  let t := k / 1000000
  let s := t % 60
  let mi := t / 60 % 60
  let h := t / 3600 % 24
  let p := civilFromDays (t / 86400)
  { y := p.1, mo := p.2.1, d := p.2.2, h, mi, s, us }

/-- broken-down time ↦ microseconds since the epoch -/
def ofCivil (c : Civil) : Nat :=
  (((daysFromCivil c.y c.mo c.d * 24 + c.h) * 60 + c.mi) * 60 + c.s) * 1000000 + c.us

/-! ### the PV timestamp text, `%Y-%m-%dT%H:%M:%S.%fZ` -/

def digitChar (d : Nat) : Char := Char.ofNat (48 + d % 10)

def charDigit? (c : Char) : Option Nat :=
  if 48 ≤ c.toNat ∧ c.toNat ≤ 57 then some (c.toNat - 48) else none

def pad2 (n : Nat) : List Char := [digitChar (n / 10), digitChar n]
def pad4 (n : Nat) : List Char :=
  [digitChar (n / 1000), digitChar (n / 100), digitChar (n / 10), digitChar n]
def pad6 (n : Nat) : List Char :=
  [digitChar (n / 100000), digitChar (n / 10000), digitChar (n / 1000),
   digitChar (n / 100), digitChar (n / 10), digitChar n]

def num2 (a b : Char) : Option Nat := do
  let x ← charDigit? a; let y ← charDigit? b; pure (x * 10 + y)
def num4 (a b c d : Char) : Option Nat := do
  let x ← num2 a b; let y ← num2 c d; pure (x * 100 + y)
def num6 (a b c d e f : Char) : Option Nat := do
  let x ← num4 a b c d; let y ← num2 e f; pure (x * 100 + y)

/-- `strftime("%Y-%m-%dT%H:%M:%S.%fZ")` for years 1000..9999. -/
def format (c : Civil) : List Char :=
  pad4 c.y ++ ['-'] ++ pad2 c.mo ++ ['-'] ++ pad2 c.d ++ ['T'] ++ pad2 c.h ++ [':'] ++
  pad2 c.mi ++ [':'] ++ pad2 c.s ++ ['.'] ++ pad6 c.us ++ ['Z']

/-- The two shapes of text the model reads: the 27 character form `format` writes and the same
without the fraction.  `none` = rejected (as `datetime.fromisoformat` rejects out-of-range fields);
other shapes that `fromisoformat` might accept are outside the modelled domain. -/
def parse : List Char → Option Civil
  | [y1, y2, y3, y4, '-', m1, m2, '-', d1, d2, 'T', h1, h2, ':', n1, n2, ':', s1, s2, '.',
     u1, u2, u3, u4, u5, u6, 'Z'] => do
    let c : Civil := { y := ← num4 y1 y2 y3 y4, mo := ← num2 m1 m2, d := ← num2 d1 d2,
                       h := ← num2 h1 h2, mi := ← num2 n1 n2, s := ← num2 s1 s2,
                       us := ← num6 u1 u2 u3 u4 u5 u6 }
    if c.valid then some c else none
  | [y1, y2, y3, y4, '-', m1, m2, '-', d1, d2, 'T', h1, h2, ':', n1, n2, ':', s1, s2, 'Z'] => do
    let c : Civil := { y := ← num4 y1 y2 y3 y4, mo := ← num2 m1 m2, d := ← num2 d1 d2,
                       h := ← num2 h1 h2, mi := ← num2 n1 n2, s := ← num2 s1 s2, us := 0 }
    if c.valid then some c else none
  | _ => none

/-- PV text of a microsecond count. -/
def formatMicros (k : Nat) : List Char := format (toCivil k)

/-- `convert_timestamp_to_unix_nano` (repaired): nanoseconds denoted by a PV text. -/
def toNanos (s : List Char) : Option Nat :=
  (parse s).map fun c =>
    Gen.toNanosOfDelta (daysFromCivil c.y c.mo c.d) ((c.h * 60 + c.mi) * 60 + c.s) c.us

/-- The unrepaired `convert_timestamp_to_unix_nano`, kept for the negative lemma: seconds as a
float times 1e9 plus microseconds times 1e3, truncated.  Modelled only up to the double count
(exact arithmetic): already wrong before any rounding. -/
def toNanosOld (s : List Char) : Option Nat :=
  (parse s).map fun c => 1000 * ofCivil c + 1000 * c.us

/-! ### binary64, non-negative finite values only -/

/-- round half to even of `a / b` -/
def rne (a b : Nat) : Nat :=
  let q := a / b
  let r := a % b
  if 2 * r < b then q else if b < 2 * r then q + 1 else if q % 2 = 0 then q else q + 1

/-- a non-negative double `m · 2^e` (not necessarily normalised; only the value matters) -/
structure Dbl where
  m : Nat
  e : Int
  deriving Repr

/-- `a/b` rounded to 53 significant bits, ties to even (no overflow/subnormals in the range used). -/
def fl (a b : Nat) : Dbl :=
  if a = 0 then ⟨0, 0⟩ else
  let t : Int := (a.log2 : Int) - (b.log2 : Int)
  let ge : Bool := if 0 ≤ t then decide (b * 2 ^ t.toNat ≤ a) else decide (b ≤ a * 2 ^ (-t).toNat)
  let e : Int := (if ge then t else t - 1) - 52
  let m := if 0 ≤ e then rne a (b * 2 ^ e.toNat) else rne (a * 2 ^ (-e).toNat) b
  ⟨m, e⟩

/-- value as a fraction `num / den` -/
def Dbl.num (x : Dbl) : Nat := if 0 ≤ x.e then x.m * 2 ^ x.e.toNat else x.m
def Dbl.den (x : Dbl) : Nat := if 0 ≤ x.e then 1 else 2 ^ (-x.e).toNat

/-- `datetime.fromtimestamp(n / 1e9, UTC)` as (whole seconds, microseconds). -/
def fromNanosParts (n : Nat) : Nat × Nat :=
  let x0 := fl n 1                                   -- float(n)
  let x1 := fl x0.num (x0.den * Gen.nanoDivisor)      -- / 1e9
  let ip := x1.num / x1.den                          -- modf
  let fpn := x1.num % x1.den
  let y := fl (fpn * 1000000) x1.den                 -- * 1e6
  let us := rne y.num y.den                          -- round half even
  if 1000000 ≤ us then (ip + 1, us - 1000000) else (ip, us)

/-- microsecond count shown by the PV string of `n` nanoseconds -/
def fromNanosMicros (n : Nat) : Nat :=
  let p := fromNanosParts n
  p.1 * 1000000 + p.2

/-- `unix_nano_to_pv_string` -/
def fromNanos (n : Nat) : List Char := formatMicros (fromNanosMicros n)

end O2P.Time
