import O2P.Generated.Consts
import O2P.Model.Diagram
/-
M8 `Writer` — the PlantUML writer of `tel2puml/puml_graph.py` (`PUMLGraph.write_puml_string`, lines 26-57 and
472-567): the graph of PUML nodes, networkx's `topological_sort` (for the head node only), `dfs_successors`,
`_order_nodes_from_dfs_successors_dict` (successors in *reverse* order of discovery, a PATH node before every
successor but the first of a START operator node) and the per-node line writers with the indentation table
`OPERATOR_NODE_PUML_MAP`, which is read from the translated copy `O2P.Gen.operatorTable`.

Nodes are numbered by their position in `nodes` (networkx keeps insertion order); `adj` lists, per node, its
successors in the order the edges were added.  Branch-count events (`BCNT`) are not modelled.  Core Lean only.
-/
namespace O2P.Writer
open O2P.Diagram (Op)

inductive Pos where
  | start | path | end_
  deriving DecidableEq, Repr

inductive Op4 where
  | xor | and | or | loop
  deriving DecidableEq, Repr

def Pos.key : Pos → String
  | .start => "START" | .path => "PATH" | .end_ => "END"
def Op4.key : Op4 → String
  | .xor => "XOR" | .and => "AND" | .or => "OR" | .loop => "LOOP"

mutual
inductive PNode where
  | ev (name : String) (brk : Bool)                        -- PUMLEventNode without sub graph
  | sub (isLoop : Bool) (g : PGraph) (brk : Bool)          -- PUMLEventNode with a sub graph (LOOP type or not)
  | oper (pos : Pos) (op : Op4)                            -- PUMLOperatorNode
  | kill                                                   -- PUMLKillNode
inductive PGraph where
  | mk (nodes : List PNode) (adj : List (List Nat))
end

instance : Inhabited PNode := ⟨.kill⟩
instance : Inhabited PGraph := ⟨.mk [] []⟩

def PGraph.nodes : PGraph → List PNode | .mk n _ => n
def PGraph.adj : PGraph → List (List Nat) | .mk _ a => a
def PGraph.succ (g : PGraph) (u : Nat) : List Nat := g.adj.getD u []

/-! ### networkx: head of the topological order, depth-first successors -/

def indeg (adj : List (List Nat)) (removed : List Nat) (v : Nat) : Nat :=
  ((List.range adj.length).filter (fun u => !removed.contains u && (adj.getD u []).contains v)).length

/-- Kahn's generations: the nodes in a topological order (zero in-degree first, in insertion order), or `none`
when a cycle remains (networkx raises `NetworkXUnfeasible`) -/
def topoOrder (n : Nat) (adj : List (List Nat)) : Nat → List Nat → Option (List Nat)
  | 0, done => if done.length == n then some done else none
  | fuel + 1, done =>
    let gen := (List.range n).filter (fun v => !done.contains v && indeg adj done v == 0)
    if gen.isEmpty then (if done.length == n then some done else none)
    else topoOrder n adj fuel (done ++ gen)

/-- one entry of the dictionary `dfs_successors` returns: node ↦ successors in order of discovery -/
abbrev SuccDict := List (Nat × List Nat)

def SuccDict.get (d : SuccDict) (u : Nat) : Option (List Nat) := (d.find? (·.1 == u)).map (·.2)

def SuccDict.add (d : SuccDict) (u v : Nat) : SuccDict :=
  if d.any (·.1 == u) then d.map (fun e => if e.1 == u then (e.1, e.2 ++ [v]) else e) else d ++ [(u, [v])]

/-- recursive depth-first search (what `dfs_edges`' explicit stack does): state = visited nodes and the dictionary -/
def dfsVisit (g : PGraph) : Nat → Nat → List Nat × SuccDict → List Nat × SuccDict
  | 0, _, st => st
  | fuel + 1, u, st =>
    (g.succ u).foldl (fun st v =>
      if st.1.contains v then st
      else dfsVisit g fuel v (v :: st.1, st.2.add u v)) st

def dfsSuccessors (g : PGraph) (head : Nat) : SuccDict :=
  (dfsVisit g (g.nodes.length + 1) head ([head], [])).2

/-! ### `_order_nodes_from_dfs_successors_dict` -/

/-- what is written: a node of the graph, or a PATH node made up on the way -/
inductive Item where
  | node (i : Nat)
  | path (op : Op4)
  deriving DecidableEq, Repr

/-- `OPERATOR_PATH_FUNCTION_MAP`: START of XOR / AND / OR gives a PATH node for every successor but the first
(in reversed order); START of LOOP never -/
def pathItem (n : PNode) (i : Nat) : List Item :=
  match n with
  | .oper .start op => if op == .loop || i == 0 then [] else [.path op]
  | _ => []

def orderNodes (g : PGraph) (d : SuccDict) : Nat → Nat → List Item
  | 0, u => [.node u]
  | fuel + 1, u =>
    match d.get u with
    | none => [.node u]
    | some cs =>
      .node u :: (cs.reverse.zipIdx.flatMap fun (c, i) =>
        pathItem (g.nodes.getD u default) i ++ orderNodes g d fuel c)

/-! ### lines -/

def spaces (n : Int) : String := String.ofList (List.replicate n.toNat ' ')

def tableGet (pos : Pos) (op : Op4) : Option (List String × Int × Nat) :=
  (O2P.Gen.operatorTable.find? (fun e => e.1 == (pos.key, op.key))).map (·.2)

/-- `PUMLOperatorNode.write_uml_blocks`: lines and the indent difference (in tabs); `none` = `KeyError` -/
def operLines (pos : Pos) (op : Op4) (indent tab : Int) : Option (List String × Int) :=
  match tableGet pos op with
  | none => none
  | some (strs, diff, unindent) =>
    let indent' := if indent ≤ 0 then 0 else indent
    let un : Int := if indent ≤ 0 then 0 else unindent
    some (strs.zipIdx.map (fun (s, i) => spaces (((i : Int) - un) * tab + indent') ++ s), diff)

/-- the loop of `write_uml_blocks`: the items one after the other, the indent carried along -/
def itemsLinesWith (f : Item → Int → Option (List String × Int)) (tab : Int) : List Item → Int → Option (List String)
  | [], _ => some []
  | it :: rest, indent =>
    match f it indent with
    | none => none
    | some (ls, diff) =>
      match itemsLinesWith f tab rest (indent + diff * tab) with
      | none => none
      | some more => some (ls ++ more)

mutual
/-- `PUMLGraph.write_uml_blocks` -/
def graphLines : Nat → PGraph → Int → Int → Option (List String)
  | 0, _, _, _ => none
  | fuel + 1, g, indent, tab =>
    if g.nodes.isEmpty then some []
    else match topoOrder g.nodes.length g.adj g.nodes.length [] with
      | none => none
      | some [] => some []
      | some (head :: _) =>
        let items := orderNodes g (dfsSuccessors g head) (g.nodes.length + 1) head
        itemsLinesWith (fun it ind => itemLines fuel g it ind tab) tab items indent
/-- one node (`write_uml_blocks` of the node classes) or a PATH node -/
def itemLines : Nat → PGraph → Item → Int → Int → Option (List String × Int)
  | _, _, .path op, indent, tab => operLines .path op indent tab
  | fuel, g, .node i, indent, tab =>
    match g.nodes.getD i default with
    | .kill => some ([spaces indent ++ "detach"], 0)
    | .oper pos op => operLines pos op indent tab
    | .ev name brk =>
      some ([spaces indent ++ ":" ++ name ++ ";"] ++ (if brk then [spaces indent ++ "break"] else []), 0)
    | .sub isLoop sg brk =>
      match fuel with
      | 0 => none
      | fuel' + 1 =>
        let inner := if isLoop then graphLines fuel' sg (indent + tab) tab else graphLines fuel' sg indent tab
        match inner with
        | none => none
        | some ls =>
          let ls := if isLoop then [spaces indent ++ "repeat"] ++ ls ++ [spaces indent ++ "repeat while"] else ls
          some (ls ++ (if brk then [spaces indent ++ "break"] else []), 0)
end

mutual
def PGraph.depth : PGraph → Nat
  | .mk ns _ => depthL ns + 1
def PNode.depth : PNode → Nat
  | .sub _ g _ => g.depth + 1
  | _ => 0
def depthL : List PNode → Nat
  | [] => 0
  | n :: ns => max n.depth (depthL ns)
end

/-- `PUMLGraph.write_puml_string` -/
def writePumlString (g : PGraph) (name : String) (tab : Nat := 4) : Option String :=
  match graphLines (2 * g.depth + 2) g (3 * tab) tab with
  | none => none
  | some ls =>
    some ("\n".intercalate (["@startuml", spaces tab ++ "partition \"" ++ name ++ "\" {",
      spaces (2 * tab) ++ "group \"" ++ name ++ "\""] ++ ls ++
      [spaces (2 * tab) ++ "end group", spaces tab ++ "}", "@enduml"]))

end O2P.Writer
