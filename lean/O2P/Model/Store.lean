/-
M1 `Store` — the SQL data holder of otel2pv as a state machine
(tel2puml/otel_to_pv/data_holders/sql_data_holder/sql_dataholder.py, data_holders/base.py,
after the two `fix:` commits 770d495 and d755109).

Tables: `nodes` (insertion order, unique `event_id`), `NODE_ASSOCIATION` (primary key on the pair),
`job_hashes` (primary key `job_id`).  SQLite's constraint behaviour is modelled from the flags the
translator extracts (`O2P.Generated.Consts`); bulk inserts are all-or-nothing per statement.

Core Lean only.
-/
import O2P.Generated.Consts
namespace O2P.Store

structure Node where
  jobName : String
  jobId : String
  typ : String
  id : String
  start : Int
  stop : Int
  app : String
  parent : Option String
  deriving DecidableEq, Repr

abbrev Link := String × String   -- (parent id, child id)

/-- call-tree shape: type and the multiset of child shapes (kept sorted) — what the recursive
hash of `compute_graph_hash_from_event_ids` is a digest of -/
inductive Shape where
  | mk : String → List Shape → Shape
  deriving Repr

structure Store where
  nodes : List Node
  assoc : List Link
  hashes : List (String × String × Shape)   -- job id, job name, shape digest
  deriving Repr

def Store.empty : Store := ⟨[], [], []⟩

def Store.ids (s : Store) : List String := s.nodes.map (·.id)

/-- `add_node_relations` / `_update_node_relations_from_node`: a span has a link iff it has a
(non-empty) parent id -/
def linkOf (n : Node) : Option Link := n.parent.map fun p => (p, n.id)

def linksOf (ns : List Node) : List Link := ns.filterMap linkOf

/-! ### bulk inserts (one statement, all or nothing) -/

def nodup [DecidableEq α] : List α → Bool
  | [] => true
  | x :: xs => !xs.contains x && nodup xs

/-- `INSERT INTO nodes …`: fails as a whole when `event_id` would not stay unique -/
def insertNodes (s : Store) (ns : List Node) : Option Store :=
  if Gen.nodesEventIdUnique && !(nodup (ns.map (·.id)) && (ns.all fun n => !s.ids.contains n.id)) then none
  else some { s with nodes := s.nodes ++ ns }

/-- `INSERT INTO NODE_ASSOCIATION …`: fails as a whole when a pair would repeat -/
def insertLinks (s : Store) (ls : List Link) : Option Store :=
  if Gen.assocPairKey && !(nodup ls && (ls.all fun l => !s.assoc.contains l)) then none
  else some { s with assoc := s.assoc ++ ls }

/-- first occurrence of every id -/
def firstOcc : List Node → List Node
  | [] => []
  | n :: ns => n :: (firstOcc ns).filter (·.id != n.id)

inductive Outcome where
  | ok
  | integrity     -- an IntegrityError escaped (the run aborts)
  deriving DecidableEq, Repr

/-- `commit_batched_data_to_database`: nodes first (committed), then links. `false` = IntegrityError;
the store keeps whatever statement succeeded. -/
def commitBatch (s : Store) (ns : List Node) (ls : List Link) : Store × Bool :=
  match insertNodes s ns with
  | none => (s, false)
  | some s1 =>
    match insertLinks s1 ls with
    | none => (s1, false)
    | some s2 => (s2, true)

/-- `commit_batched_unique_data_to_database` with the fall-back
`check_and_filter_non_unique_nodes_and_associations` -/
def commitUnique (s : Store) (ns : List Node) (ls : List Link) : Store × Outcome :=
  match commitBatch s ns ls with
  | (s1, true) => (s1, .ok)
  | (s1, false) =>
    let filtered := (firstOcc ns).filter fun n => !s1.ids.contains n.id
    match commitBatch s1 filtered (linksOf filtered) with
    | (s2, true) => (s2, .ok)
    | (s2, false) => (s2, .integrity)

/-- process-local state of one data holder object -/
structure Holder where
  store : Store
  pendNodes : List Node
  pendLinks : List Link
  minTs : Int
  maxTs : Int
  deriving Repr

def maxInt64 : Int := 9223372036854775807

def Holder.fresh (s : Store) : Holder := ⟨s, [], [], maxInt64, 0⟩

/-- `DataHolder.save_data` then `SQLDataHolder._save_data` -/
def saveData (batch : Nat) (h : Holder) (n : Node) : Holder × Outcome :=
  let h1 : Holder := { h with
    minTs := min h.minTs n.start, maxTs := max h.maxTs n.stop,
    pendNodes := h.pendNodes ++ [n],
    pendLinks := h.pendLinks ++ (linkOf n).toList }
  if batch ≤ h1.pendNodes.length then
    let (s, o) := commitUnique h1.store h1.pendNodes h1.pendLinks
    match o with
    | .ok => ({ h1 with store := s, pendNodes := [], pendLinks := [] }, .ok)
    | .integrity => ({ h1 with store := s }, .integrity)
  else (h1, .ok)

/-- `__exit__`: final flush -/
def exitHolder (h : Holder) : Holder × Outcome :=
  let (s, o) := commitUnique h.store h.pendNodes h.pendLinks
  match o with
  | .ok => ({ h with store := s, pendNodes := [], pendLinks := [] }, .ok)
  | .integrity => ({ h with store := s }, .integrity)

/-- `IngestData.load_to_data_holder` -/
def ingest (batch : Nat) (h : Holder) : List Node → Holder × Outcome
  | [] => exitHolder h
  | n :: ns =>
    match saveData batch h n with
    | (h1, .ok) => ingest batch h1 ns
    | (h1, .integrity) => (h1, .integrity)

/-- the specification of ingestion: first occurrences of the ids not yet stored, with their links -/
def newNodes (s : Store) (es : List Node) : List Node :=
  (firstOcc es).filter fun n => !s.ids.contains n.id

def ingestSpec (s : Store) (es : List Node) : Store :=
  { s with nodes := s.nodes ++ newNodes s es, assoc := s.assoc ++ linksOf (newNodes s es) }

/-! ### cleaning -/

def dropOrphanLinks (nodes : List Node) (assoc : List Link) : List Link :=
  assoc.filter fun l => nodes.any (·.id == l.2)

/-- `remove_inconsistent_jobs` -/
def removeInconsistent (s : Store) : Store :=
  let dangling := s.assoc.filter fun l => !s.ids.contains l.1
  let badJobs := (s.nodes.filter fun n => dangling.any (·.2 == n.id)).map (·.jobId)
  let nodes := s.nodes.filter fun n => !badJobs.contains n.jobId
  { s with nodes, assoc := dropOrphanLinks nodes s.assoc }

def Holder.minTimestamp (h : Holder) : Int := if h.maxTs < h.minTs then 0 else h.minTs
def Holder.maxTimestamp (h : Holder) : Int := if h.maxTs < h.minTs then maxInt64 else h.maxTs

/-- `get_time_window`; `none` = ValueError (buffer too large) -/
def timeWindow (buffer : Int) (h : Holder) : Option (Int × Int) :=
  let b := buffer * 60 * 1000000000
  let lo := h.minTimestamp + b
  let hi := h.maxTimestamp - b
  if lo ≥ hi then none else some (lo, hi)

def inWindow (w : Int × Int) (n : Node) : Bool :=
  (w.1 ≤ n.start && n.start ≤ w.2) || (w.1 ≤ n.stop && n.stop ≤ w.2)

def jobsInWindow (w : Int × Int) (nodes : List Node) : List String :=
  (nodes.filter (inWindow w)).map (·.jobId)

/-- `remove_jobs_outside_of_time_window` for a computed window -/
def removeOutside (w : Int × Int) (s : Store) : Store :=
  let keep := jobsInWindow w s.nodes
  let nodes := s.nodes.filter fun n => keep.contains n.jobId
  { s with nodes, assoc := dropOrphanLinks nodes s.assoc }

/-- `update_job_names_by_root_span` (jobs with one root; with several roots SQLite picks one and the
model takes the last in storage order, which the correspondence does not rely on) -/
def renameByRoot (s : Store) : Store :=
  let roots := s.nodes.filter (·.parent.isNone)
  let nameOf (j : String) : Option String := (roots.reverse.find? (·.jobId == j)).map (·.jobName)
  { s with nodes := s.nodes.map fun n => match nameOf n.jobId with
      | some nm => { n with jobName := nm }
      | none => n }

/-! ### streaming -/

/-- stable insertion for `ORDER BY job_name, job_id` (rows with equal keys keep their storage order) -/
def insertSorted (n : Node) : List Node → List Node
  | [] => [n]
  | m :: ms =>
    if (m.jobName < n.jobName) || (m.jobName == n.jobName && m.jobId < n.jobId)
    then m :: insertSorted n ms else n :: m :: ms

def sortNodes (ns : List Node) : List Node := ns.foldr insertSorted []

/-- consecutive grouping by a key (itertools.groupby) -/
def groupBy [DecidableEq κ] (key : α → κ) : List α → List (κ × List α)
  | [] => []
  | x :: xs =>
    match groupBy key xs with
    | (k, g) :: r => if key x = k then (k, x :: g) :: r else (key x, [x]) :: (k, g) :: r
    | [] => [(key x, [x])]

/-- optional filter `job name ↦ job ids`; an empty map filters nothing (Python truthiness) -/
def passes (filt : Option (List (String × List String))) (n : Node) : Bool :=
  match filt with
  | none => true
  | some [] => true
  | some m => m.any fun (nm, ids) => nm == n.jobName && ids.contains n.jobId

/-- children of a span as `node.children` resolves them: stored nodes linked from it -/
def childrenOf (s : Store) (id : String) : List String :=
  (s.assoc.filter fun l => l.1 == id && s.ids.contains l.2).map (·.2)

/-- `stream_data`: job name ↦ traces ↦ spans -/
def stream (s : Store) (filt : Option (List (String × List String))) :
    List (String × List (String × List Node)) :=
  (groupBy (·.jobName) (sortNodes (s.nodes.filter (passes filt)))).map fun (nm, g) =>
    (nm, groupBy (·.jobId) g)

/-! ### unique graphs -/

mutual
def Shape.cmp : Shape → Shape → Ordering
  | .mk a as, .mk b bs => if a < b then .lt else if b < a then .gt else cmpL as bs
def cmpL : List Shape → List Shape → Ordering
  | [], [] => .eq
  | [], _ :: _ => .lt
  | _ :: _, [] => .gt
  | x :: xs, y :: ys =>
    match x.cmp y with
    | .eq => cmpL xs ys
    | o => o
end

def shapeLe (a b : Shape) : Bool := a.cmp b != .gt

def insertShape (x : Shape) : List Shape → List Shape
  | [] => [x]
  | y :: ys => if shapeLe x y then x :: y :: ys else y :: insertShape x ys

/-- recursive digest of the call tree below `n` using the parent fields of the batch's nodes -/
def shapeOf (nodes : List Node) : Nat → Node → Shape
  | 0, n => .mk n.typ []
  | fuel + 1, n =>
    let kids := nodes.filter fun m => m.parent == some n.id
    .mk n.typ ((kids.map (shapeOf nodes fuel)).foldr insertShape [])

def shapeEq (a b : Shape) : Bool := a.cmp b == .eq

/-- `find_unique_graphs` for a computed window: recompute `job_hashes` for the roots of the jobs in
the window; `none` = IntegrityError (a job with two roots: `job_id` is the key of `job_hashes`) -/
def computeHashes (w : Int × Int) (s : Store) : Option Store :=
  let jobs := jobsInWindow w s.nodes
  let roots := s.nodes.filter fun n => n.parent.isNone && jobs.contains n.jobId
  let rows := roots.map fun r =>
    (r.jobId, r.jobName, shapeOf (s.nodes.filter (·.jobId == r.jobId)) s.nodes.length r)
  if Gen.jobHashesJobIdKey && !(nodup (rows.map (·.1))) then none
  else some { s with hashes := rows }

/-- first occurrence of every `(job name, shape)` key -/
def dedupKeys : List (String × Shape) → List (String × Shape)
  | [] => []
  | k :: ks => k :: (dedupKeys ks).filter fun k' => !(k'.1 == k.1 && shapeEq k'.2 k.2)

/-- classes of `(job name, shape)` with their member job ids: `get_unique_graph_job_ids_per_job_name`
(`GROUP BY job_name, job_hash` with a bare `job_id` column) returns one (unspecified) member per class -/
def shapeClasses (s : Store) : List (String × Shape × List String) :=
  (dedupKeys (s.hashes.map fun (_, nm, sh) => (nm, sh))).map fun (nm, sh) =>
    (nm, sh, (s.hashes.filter fun (_, n2, s2) => n2 == nm && shapeEq s2 sh).map (·.1))

/-! ### one run of `otel_to_pv` on a persisted store -/

inductive RunStatus where
  | ok
  | integrity      -- an IntegrityError aborted the run
  | valueerror     -- the time buffer is too large for the data (`get_time_window`)
  deriving DecidableEq, Repr

/-- `otel_to_pv(config, ingest_data, find_unique_graphs)` up to the point where streaming starts, on the
store another run (another process: fresh holder) left behind. Saving events does not touch the store. -/
def runOnce (batch : Nat) (buffer : Int) (ing uq : Bool) (input : List Node) (s : Store) : Store × RunStatus :=
  let (h, o) := if ing then ingest batch (Holder.fresh s) input else (Holder.fresh s, Outcome.ok)
  match o with
  | .integrity => (h.store, .integrity)
  | .ok =>
    let s1 := removeInconsistent h.store
    match timeWindow buffer h with
    | none => (s1, .valueerror)
    | some w =>
      let s2 := renameByRoot (removeOutside w s1)
      if uq then
        match computeHashes w s2 with
        | none => (s2, .integrity)
        | some s3 => (s3, .ok)
      else (s2, .ok)

end O2P.Store
