import O2P.Generated.Consts
/-
M5 `Diagram` — job definitions as block structures and their meaning.

* `Blk`: event | sequence | fork (AND/OR/XOR) | loop | break | detach.
* `parse`: the PlantUML activity dialect the tool emits (`switch/case/endswitch`, `fork`, `split`,
  `repeat`, `break`, `detach`, one `partition` + `group`) and the dialect the repository's corpus is
  written in (`if/else/endif`, `kill`, colours, conditions after `repeat while`).
* `exec`/`runs k`: the jobs (event DAGs) a definition admits with every loop run 1..k times.
  AND = all branches, OR = every non-empty subset, XOR = one; entry ids flow into nested forks and the
  exits of the branches flow out of the merge; a break hands the ids before it to whatever follows
  the innermost loop; detach ends a branch without an exit; a sequence only continues past a block
  that left at least one exit.
* `isoB`: label- and edge-preserving bijection between two jobs, by backtracking.
Core Lean only.
-/
namespace O2P.Diagram

inductive Op where
  | and
  | or
  | xor
  deriving DecidableEq, Repr

inductive Blk where
  | ev (name : String)
  | seq (l : List Blk)
  | fork (op : Op) (bs : List Blk)
  | loop (body : Blk)
  | brk
  | detach
  deriving Repr, Inhabited

/-! ### tokens -/

inductive Tok where
  | startuml | enduml | partStart | partEnd | groupStart | groupEnd
  | ev (name : String)
  | open_ (op : Op)      -- fork / split / switch … (first branch follows; `switch` is followed by `case`)
  | again (op : Op)      -- fork again / split again / case
  | close (op : Op)      -- end fork / end split / endswitch
  | ifStart | else_ | endif
  | repeat_ | repeatWhile
  | brk | detach
  | bad (line : String)
  deriving DecidableEq, Repr

def trim (s : String) : String := s.trimAscii.toString

/-- `:Name;` possibly with a colour prefix (`#green:Name;`) -/
def eventName? (s : String) : Option String :=
  let s1 := if s.startsWith "#" then (s.dropWhile (· != ':')).toString else s
  if s1.startsWith ":" && s1.endsWith ";" then
    some (((s1.drop 1).toString.dropEnd 1).toString)
  else none

def tokOfLine (raw : String) : Option Tok :=
  let s := trim raw
  if s.isEmpty then none
  else if s.startsWith "@startuml" then some .startuml
  else if s.startsWith "@enduml" then some .enduml
  else if s.startsWith "partition " then some .partStart
  else if s == "}" then some .partEnd
  else if s.startsWith "group " then some .groupStart
  else if s == "end group" then some .groupEnd
  else if s == "fork again" then some (.again .and)
  else if s == "end fork" then some (.close .and)
  else if s == "fork" then some (.open_ .and)
  else if s == "split again" then some (.again .or)
  else if s == "end split" then some (.close .or)
  else if s == "split" then some (.open_ .or)
  else if s.startsWith "switch" then some (.open_ .xor)
  else if s.startsWith "case" then some (.again .xor)
  else if s == "endswitch" then some (.close .xor)
  else if s.startsWith "if " || s.startsWith "if(" then some .ifStart
  else if s.startsWith "else" then some .else_
  else if s == "endif" then some .endif
  else if s.startsWith "repeat while" then some .repeatWhile
  else if s == "repeat" then some .repeat_
  else if s == "break" then some .brk
  else if s == "detach" || s == "kill" then some .detach
  else match eventName? s with
    | some n => some (.ev n)
    | none => some (.bad s)

def tokenize (text : String) : List Tok := (text.splitOn "\n").filterMap tokOfLine

/-! ### parser -/

/-- what ended a sequence -/
inductive Stop where
  | eof | again (op : Op) | close (op : Op) | else_ | endif | repeatWhile | groupEnd | partEnd | enduml
  deriving DecidableEq, Repr

/-- a sequence of items up to (and consuming) its terminator -/
def parseSeq : Nat → List Tok → Except String (List Blk × Stop × List Tok)
  | 0, _ => .error "fuel"
  | _, [] => .ok ([], .eof, [])
  | fuel + 1, t :: ts =>
    match t with
    | .ev n => do
      let (r, st, rest) ← parseSeq fuel ts
      pure (.ev n :: r, st, rest)
    | .brk => do
      let (r, st, rest) ← parseSeq fuel ts
      pure (.brk :: r, st, rest)
    | .detach => do
      let (r, st, rest) ← parseSeq fuel ts
      pure (.detach :: r, st, rest)
    | .repeat_ => do
      let (body, st, rest) ← parseSeq fuel ts
      if st != .repeatWhile then throw s!"repeat closed by {repr st}" else
      let (r, st2, rest2) ← parseSeq fuel rest
      pure (.loop (.seq body) :: r, st2, rest2)
    | .open_ op => do
      -- `switch` is immediately followed by its first `case`
      let ts1 ← if op == .xor then (match ts with
        | .again .xor :: r => pure r
        | _ => throw "switch not followed by case") else pure ts
      let (bs, rest) ← parseBranches fuel op ts1
      let (r, st2, rest2) ← parseSeq fuel rest
      pure (.fork op bs :: r, st2, rest2)
    | .ifStart => do
      let (b1, st, rest) ← parseSeq fuel ts
      match st with
      | .else_ => do
        let (b2, st2, rest2) ← parseSeq fuel rest
        if st2 != .endif then throw s!"else closed by {repr st2}" else
        let (r, st3, rest3) ← parseSeq fuel rest2
        pure (.fork .xor [.seq b1, .seq b2] :: r, st3, rest3)
      | .endif => do
        let (r, st3, rest3) ← parseSeq fuel rest
        pure (.fork .xor [.seq b1, .seq []] :: r, st3, rest3)
      | _ => throw s!"if closed by {repr st}"
    | .again op => pure ([], .again op, ts)
    | .close op => pure ([], .close op, ts)
    | .else_ => pure ([], .else_, ts)
    | .endif => pure ([], .endif, ts)
    | .repeatWhile => pure ([], .repeatWhile, ts)
    | .groupEnd => pure ([], .groupEnd, ts)
    | .partEnd => pure ([], .partEnd, ts)
    | .enduml => pure ([], .enduml, ts)
    | .startuml => throw "@startuml inside the diagram"
    | .partStart => throw "partition inside the diagram"
    | .groupStart => throw "group inside the diagram"
    | .bad l => throw s!"unknown line: {l}"
where
  /-- branches of a fork up to its own terminator; a separator or terminator of another operator is an error -/
  parseBranches : Nat → Op → List Tok → Except String (List Blk × List Tok)
    | 0, _, _ => .error "fuel"
    | fuel + 1, op, ts => do
      let (b, st, rest) ← parseSeq fuel ts
      match st with
      | .again op2 =>
        if op2 != op then throw s!"separator of {repr op2} inside {repr op}" else do
        let (bs, rest2) ← parseBranches fuel op rest
        pure (.seq b :: bs, rest2)
      | .close op2 =>
        if op2 != op then throw s!"{repr op} closed by terminator of {repr op2}" else pure ([.seq b], rest)
      | _ => throw s!"{repr op} block closed by {repr st}"

def isStopper : Blk → Bool
  | .brk => true
  | .detach => true
  | _ => false

mutual
/-- `break`/`detach` may only be the last item of a sequence -/
def tailOk : Blk → Bool
  | .seq l => !(l.dropLast.any isStopper) && tailOkL l
  | .fork _ bs => tailOkL bs
  | .loop b => tailOk b
  | _ => true
def tailOkL : List Blk → Bool
  | [] => true
  | b :: bs => tailOk b && tailOkL bs
end

/-- a whole file: `@startuml`, one partition holding one group, `@enduml` (the group or the partition
may be missing in hand-written files) -/
def parseToks (toks : List Tok) : Except String Blk := do
  let toks ← match toks with
    | .startuml :: r => pure r
    | _ => throw "no @startuml"
  let (hasPart, toks) := match toks with
    | .partStart :: r => (true, r)
    | _ => (false, toks)
  let (hasGroup, toks) := match toks with
    | .groupStart :: r => (true, r)
    | _ => (false, toks)
  let (body, st, rest) ← parseSeq (toks.length + 1) toks
  let (st, rest) ← if hasGroup then
      (if st != .groupEnd then throw s!"group closed by {repr st}" else
        match rest with
        | .partEnd :: r => pure (Stop.partEnd, r)
        | .enduml :: r => pure (Stop.enduml, r)
        | _ => throw "nothing after end group")
    else pure (st, rest)
  let (st, rest) ← if hasPart then
      (if st != .partEnd then throw s!"partition closed by {repr st}" else
        match rest with
        | .enduml :: r => pure (Stop.enduml, r)
        | _ => throw "no @enduml")
    else pure (st, rest)
  if st != .enduml then throw s!"diagram closed by {repr st}"
  else if !rest.isEmpty then throw "text after @enduml"
  else pure (.seq body)

def parseCore (text : String) : Except String Blk := parseToks (tokenize text)

/-- `parseCore` plus the rule that `break`/`detach` end their branch -/
def parse (text : String) : Except String Blk :=
  match parseCore text with
  | .error e => .error e
  | .ok d => if tailOk d then .ok d else .error "break/detach not last in its branch"

mutual
/-- the event names of a definition, with repeats -/
def names : Blk → List String
  | .ev n => [n]
  | .seq l => namesL l
  | .fork _ bs => namesL bs
  | .loop b => names b
  | .brk => []
  | .detach => []
def namesL : List Blk → List String
  | [] => []
  | b :: bs => names b ++ namesL bs
end

/-! ### semantics -/

structure JNode where
  id : Nat
  typ : String
  prev : List Nat
  deriving DecidableEq, Repr

abbrev Job := List JNode

structure Out where
  nodes : List JNode
  exits : List Nat
  breaks : List Nat
  next : Nat
  deriving Repr

/-- all non-empty sub-lists -/
def nonEmptySublists {α : Type} : List α → List (List α)
  | [] => []
  | x :: xs => [x] :: ((nonEmptySublists xs).map (x :: ·)) ++ nonEmptySublists xs

/-- executions of a block entered from the events `entry`, loops run 1..k times; `fuel` bounds the
recursion depth (the driver supplies the size of the definition times k) -/
def exec (k : Nat) : Nat → Blk → List Nat → Nat → List Out
  | 0, _, _, _ => []
  | fuel + 1, b, entry, next =>
    match b with
    | .ev n => [⟨[⟨next, n, entry⟩], [next], [], next + 1⟩]
    | .brk => [⟨[], [], entry, next⟩]
    | .detach => [⟨[], [], [], next⟩]
    | .seq l => execSeq fuel l entry next
    | .fork op bs =>
      let choices : List (List Blk) := match op with
        | .and => [bs]
        | .xor => bs.map ([·])
        | .or => nonEmptySublists bs
      choices.flatMap fun sel => execPar fuel sel entry next
    | .loop body => execLoop fuel k body entry next
where
  execSeq : Nat → List Blk → List Nat → Nat → List Out
    | 0, _, _, _ => []
    | _, [], entry, next => [⟨[], entry, [], next⟩]
    | fuel + 1, b :: bs, entry, next =>
      (exec k fuel b entry next).flatMap fun o =>
        if o.exits.isEmpty && !(entry.isEmpty && o.nodes.isEmpty) then [o]
        else (execSeq fuel bs o.exits o.next).map fun r =>
          ⟨o.nodes ++ r.nodes, r.exits, o.breaks ++ r.breaks, r.next⟩
  execPar : Nat → List Blk → List Nat → Nat → List Out
    | 0, _, _, _ => []
    | _, [], _, next => [⟨[], [], [], next⟩]
    | fuel + 1, b :: bs, entry, next =>
      (exec k fuel b entry next).flatMap fun o =>
        (execPar fuel bs entry o.next).map fun r =>
          ⟨o.nodes ++ r.nodes, o.exits ++ r.exits, o.breaks ++ r.breaks, r.next⟩
  execLoop : Nat → Nat → Blk → List Nat → Nat → List Out
    | 0, _, _, _, _ => []
    | _, 0, _, _, _ => []
    | fuel + 1, i + 1, body, entry, next =>
      (exec k fuel body entry next).flatMap fun o =>
        -- leave the loop here: what the iteration left plus what broke out of it
        ⟨o.nodes, o.exits ++ o.breaks, [], o.next⟩ ::
        (if o.exits.isEmpty then []
         else (execLoop fuel i body o.exits o.next).map fun r =>
           ⟨o.nodes ++ r.nodes, r.exits ++ o.breaks, [], r.next⟩)

mutual
def size : Blk → Nat
  | .seq l => 1 + sizeL l
  | .fork _ bs => 1 + sizeL bs
  | .loop b => 1 + size b
  | _ => 1
def sizeL : List Blk → Nat
  | [] => 0
  | b :: bs => size b + sizeL bs
end

/-- an upper bound on the number of executions (used to refuse enumerations that would not fit) -/
partial def countUB (k : Nat) : Blk → Nat
  | .seq l => (l.map (countUB k)).foldl (· * ·) 1
  | .fork .and bs => (bs.map (countUB k)).foldl (· * ·) 1
  | .fork .xor bs => (bs.map (countUB k)).sum
  | .fork .or bs => (bs.map fun b => countUB k b + 1).foldl (· * ·) 1 - 1
  | .loop b => ((List.range k).map fun i => (countUB k b) ^ (i + 1)).sum
  | _ => 1

/-- the jobs of a definition with loops run 1..k times -/
def runs (k : Nat) (d : Blk) : List Job :=
  (exec k (2 * (size d + 1) * (k + 1) + 4) d [] 0).map (·.nodes)

/-! ### isomorphism of jobs -/

def sameSet (a b : List Nat) : Bool := a.all b.contains && b.all a.contains && a.length == b.length

/-- extend a partial bijection (pairs `(id in a, id in b)`) node by node; `a` is in an order in which
every node comes after its predecessors -/
def matchNodes : Nat → List JNode → List JNode → List (Nat × Nat) → Bool
  | 0, _, _, _ => false
  | _, [], rest, _ => rest.isEmpty
  | fuel + 1, x :: xs, bs, m =>
    bs.any fun y =>
      y.typ == x.typ && y.prev.length == x.prev.length &&
      (match x.prev.mapM (fun p => (m.find? (·.1 == p)).map (·.2)) with
        | some img => sameSet img y.prev
        | none => false) &&
      matchNodes fuel xs (bs.filter (·.id != y.id)) ((x.id, y.id) :: m)

/-- order the nodes so that predecessors come first (the input may list them in any order) -/
def topo : Nat → List JNode → List Nat → List JNode → Option (List JNode)
  | 0, _, _, _ => none
  | _, [], _, acc => some acc.reverse
  | fuel + 1, pending, done, acc =>
    match pending.find? fun n => n.prev.all done.contains with
    | none => none
    | some n => topo fuel (pending.filter (·.id != n.id)) (n.id :: done) (n :: acc)

def isoB (a b : Job) : Bool :=
  a.length == b.length &&
  match topo (a.length + 1) a [] [] with
  | some ta => matchNodes (a.length + 1) ta b []
  | none => false

/-- multiset of event types, sorted: a cheap necessary condition -/
def insertStr (x : String) : List String → List String
  | [] => [x]
  | y :: ys => if x < y then x :: y :: ys else y :: insertStr x ys

def typeKey (j : Job) : List String := (j.map (·.typ)).foldr insertStr []

def accepts (k : Nat) (d : Blk) (j : Job) : Bool :=
  let key := typeKey j
  (runs k d).any fun r => r.length == j.length && typeKey r == key && isoB r j

end O2P.Diagram
