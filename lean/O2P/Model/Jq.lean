/-
M-Jq — the field-mapping extraction of the JSON data source
(tel2puml/otel_to_pv/data_sources/json_data_source/json_jq_converter.py, json_config.py after
normalisation, json_datasource.py) as the documented flattening:

* every array level (`.[].`) of the key paths becomes a loop variable, shared between fields through
  the prefix trie of the paths; one record per combination of loop values, loops nested in the
  depth-first order of the trie;
* a leaf is a dotted path below a loop variable, or a key/value lookup inside the last array;
* `//` priority fall-back, `_` join (null-strict) or array flattening; absent values are null;
* every record is validated as an `OTelEvent`; records that do not validate are skipped.

The jq engine itself is not modelled: the behaviour of the emitted program is stated directly, and the
correspondence check runs the real compiled program on the same documents.  Core Lean only.
-/
namespace O2P.Jq

inductive Json where
  | null
  | bool (b : Bool)
  | num (n : Int)
  | str (s : String)
  | arr (l : List Json)
  | obj (kv : List (String × Json))
  deriving Repr, Inhabited

mutual
def Json.beq : Json → Json → Bool
  | .null, .null => true
  | .bool a, .bool b => a == b
  | .num a, .num b => a == b
  | .str a, .str b => a == b
  | .arr a, .arr b => beqL a b
  | .obj a, .obj b => beqKV a b
  | _, _ => false
def beqL : List Json → List Json → Bool
  | [], [] => true
  | x :: xs, y :: ys => x.beq y && beqL xs ys
  | _, _ => false
def beqKV : List (String × Json) → List (String × Json) → Bool
  | [], [] => true
  | (k, x) :: xs, (l, y) :: ys => k == l && x.beq y && beqKV xs ys
  | _, _ => false
end

def Json.isNull : Json → Bool
  | .null => true
  | _ => false

/-- jq truthiness: everything but `null` and `false` -/
def truthy : Json → Bool
  | .null => false
  | .bool false => false
  | _ => true

/-- `.k`; `none` = jq error (indexing a scalar or an array with a string) -/
def field (k : String) : Json → Option Json
  | .obj kv => some (match kv.find? (·.1 == k) with
      | some p => p.2
      | none => .null)
  | .null => some .null
  | _ => none

/-- a dotted path `.a.b.c` -/
def path : List String → Json → Option Json
  | [], v => some v
  | k :: ks, v => (field k v).bind (path ks)

/-- `.[]`; `none` = jq error (iterating null or a scalar) -/
def iter : Json → Option (List Json)
  | .arr l => some l
  | .obj kv => some (kv.map (·.2))
  | _ => none

/-- `(try $p.chunk[] catch null)`: the values a loop variable takes below its parent's value -/
def items (chunk : List String) (v : Json) : List Json :=
  match (path chunk v).bind iter with
  | some l => l
  | none => [.null]

/-- a loop variable: the variable it hangs below and the dotted path to its array -/
structure VarDecl where
  parent : Nat
  chunk : List String
  deriving Repr

/-- an environment lists the values of `$var0` (the document), `$var1`, … in binding order; `slot`
maps a variable number to its position -/
def bindVar (slotOfParent : Nat) (chunk : List String) (env : List Json) : List (List Json) :=
  (items chunk (env.getD slotOfParent .null)).map fun x => env ++ [x]

/-- nested loops in the given order: `order` lists (slot of the parent, chunk) per loop -/
def bindings (order : List (Nat × List String)) (doc : Json) : List (List Json) :=
  order.foldl (fun envs d => envs.flatMap (bindVar d.1 d.2)) [[doc]]

inductive Leaf where
  | plain (slot : Nat) (p : List String)
  | lookup (slot : Nat) (arrPath keyPath valPath : List String) (keyValue : String)
  deriving Repr

/-- `(try $v.p catch null)` / `(try ([$v.A.[] | select(try .K) | {(.K): .V}] | add | ."kv") catch null)` -/
def evalLeaf (env : List Json) : Leaf → Json
  | .plain s p => (path p (env.getD s .null)).getD .null
  | .lookup s a k vp kv =>
    match (path a (env.getD s .null)).bind iter with
    | none => .null
    | some elems =>
      let kept := elems.filter fun e => match path k e with
        | some x => truthy x
        | none => false
      match kept.mapM (fun e => match path k e, path vp e with
          | some (.str s), some v => some (s, v)
          | _, _ => none) with
      | none => .null
      | some pairs => match pairs.reverse.find? (·.1 == kv) with
        | some p => p.2
        | none => .null

/-- `a // b // c`: the first truthy alternative, else the last one's value -/
def alt (env : List Json) : List Leaf → Json
  | [] => .null
  | [l] => evalLeaf env l
  | l :: rest => let v := evalLeaf env l; if truthy v then v else alt env rest

def quoteStr (s : String) : String :=
  "\"" ++ String.join (s.toList.map fun c =>
    if c == '"' then "\\\"" else if c == '\\' then "\\\\" else String.singleton c) ++ "\""

mutual
/-- compact JSON text (jq `tojson`) for the plain characters the generated documents use -/
def toJsonText : Json → String
  | .null => "null"
  | .bool b => if b then "true" else "false"
  | .num n => toString n
  | .str s => quoteStr s
  | .arr l => "[" ++ ",".intercalate (toJsonTextL l) ++ "]"
  | .obj kv => "{" ++ ",".intercalate (toJsonTextKV kv) ++ "}"
def toJsonTextL : List Json → List String
  | [] => []
  | x :: xs => toJsonText x :: toJsonTextL xs
def toJsonTextKV : List (String × Json) → List String
  | [] => []
  | (k, v) :: xs => (quoteStr k ++ ":" ++ toJsonText v) :: toJsonTextKV xs
end

/-- jq `tostring`: strings as they are, everything else as JSON text -/
def tostring : Json → String
  | .str s => s
  | v => toJsonText v

/-- one part of a joined value: its text, `none` when it is null -/
def partStr (env : List Json) (p : List Leaf) : Option String :=
  match alt env p with
  | .null => none
  | v => some (tostring v)

/-- string-valued field: parts joined by `_`, null as soon as one part is null -/
def evalString (env : List Json) (parts : List (List Leaf)) : Json :=
  if (parts.map (partStr env)).any Option.isNone then .null
  else .str ("_".intercalate ((parts.map (partStr env)).filterMap id))

mutual
def flattenJ : Json → List Json
  | .arr l => flattenL l
  | v => [v]
def flattenL : List Json → List Json
  | [] => []
  | x :: xs => flattenJ x ++ flattenL xs
end

/-- array-valued field: `([a] + [b]) | flatten`, null when it holds nothing but nulls -/
def evalArray (env : List Json) (parts : List (List Leaf)) : Json :=
  if !(flattenL (parts.map (alt env))).isEmpty && (flattenL (parts.map (alt env))).all Json.isNull then .null
  else .arr (flattenL (parts.map (alt env)))

structure Spec where
  parts : List (List Leaf)
  isArray : Bool
  deriving Repr

def evalField (env : List Json) (s : Spec) : Json :=
  if s.isArray then evalArray env s.parts else evalString env s.parts

abbrev Record := List (String × Json)

structure Program where
  order : List (Nat × List String)
  fields : List (String × Spec)
  deriving Repr

/-- the records the compiled program yields for one document -/
def extract (p : Program) (doc : Json) : List Record :=
  (bindings p.order doc).map fun env => p.fields.map fun (n, s) => (n, evalField env s)

/-! ### from the normalised mapping to a program (the front half of the compiler) -/

/-- one alternative of one part of a field: key path, optional key value, optional value path -/
structure AltSpec where
  keyPath : String
  keyValue : Option String
  valuePath : Option String
  deriving Repr

structure FieldSpecN where
  parts : List (List AltSpec)
  isArray : Bool
  deriving Repr

def dotted (s : String) : List String := if s.isEmpty then [] else s.splitOn "."

/-- chunks of a key path: split on `.[].`; with a key value the last two chunks stay together -/
def chunksOf (a : AltSpec) : List String × String :=
  let cs := a.keyPath.splitOn ".[]."
  match a.keyValue with
  | none => (cs.dropLast, cs.getLastD "")
  | some _ =>
    if cs.length < 2 then (cs.dropLast, cs.getLastD "")
    else ((cs.dropLast).dropLast, ".[].".intercalate [(cs.dropLast).getLastD "", cs.getLastD ""])

/-- the variable trie in allocation order: entry `i` is variable `i+1` with (parent variable, chunk text) -/
abbrev Trie := List (Nat × String)

def Trie.child (t : Trie) (parent : Nat) (chunk : String) : Option Nat :=
  (t.zipIdx.find? fun (d, _) => d.1 == parent && d.2 == chunk).map fun (_, i) => i + 1

/-- walk the chunks from the root, allocating variables; returns the variable the leaf hangs below -/
def Trie.walk (t : Trie) : Nat → List String → Trie × Nat
  | cur, [] => (t, cur)
  | cur, c :: cs =>
    match t.child cur c with
    | some v => Trie.walk t v cs
    | none => Trie.walk (t ++ [(cur, c)]) (t.length + 1) cs

def leafOf (var : Nat) (a : AltSpec) (leafText : String) : Leaf :=
  match a.keyValue with
  | none => .plain var (dotted leafText)
  | some kv =>
    match leafText.splitOn ".[]." with
    | [arrP, keyP] => .lookup var (dotted arrP) (dotted keyP) (dotted (a.valuePath.getD "")) kv
    | _ => .plain var (dotted leafText)

def compileAlts (t : Trie) : List AltSpec → Trie × List Leaf
  | [] => (t, [])
  | a :: as =>
    let (cs, leafText) := chunksOf a
    let (t1, v) := Trie.walk t 0 cs
    let (t2, ls) := compileAlts t1 as
    (t2, leafOf v a leafText :: ls)

def compileParts (t : Trie) : List (List AltSpec) → Trie × List (List Leaf)
  | [] => (t, [])
  | p :: ps =>
    let (t1, ls) := compileAlts t p
    let (t2, rest) := compileParts t1 ps
    (t2, ls :: rest)

def compileFields (t : Trie) : List (String × FieldSpecN) → Trie × List (String × Spec)
  | [] => (t, [])
  | (n, f) :: fs =>
    let (t1, ps) := compileParts t f.parts
    let (t2, rest) := compileFields t1 fs
    (t2, (n, { parts := ps, isArray := f.isArray }) :: rest)

/-- depth-first order of the trie below variable `cur` (children in allocation order) -/
def Trie.dfs (t : Trie) : Nat → Nat → List Nat
  | 0, _ => []
  | fuel + 1, cur =>
    ((t.zipIdx.filter fun (d, _) => d.1 == cur).map fun (_, i) => i + 1).flatMap fun v => v :: Trie.dfs t fuel v

/-- variables are numbered in allocation order but bound in depth-first order: slots are positions in
the binding order (slot 0 = the document) -/
def mkProgram (t : Trie) (fields : List (String × Spec)) : Program :=
  let orderVars := Trie.dfs t (t.length + 1) 0
  let slot (v : Nat) : Nat := if v == 0 then 0 else (orderVars.idxOf v) + 1
  let order := orderVars.map fun v =>
    let d := t.getD (v - 1) (0, "")
    (slot d.1, dotted d.2)
  let reslot : Leaf → Leaf
    | .plain v p => .plain (slot v) p
    | .lookup v a k vp kv => .lookup (slot v) a k vp kv
  { order, fields := fields.map fun (n, s) => (n, { s with parts := s.parts.map (·.map reslot) }) }

def compile (m : List (String × FieldSpecN)) : Program :=
  let (t, fs) := compileFields [] m
  mkProgram t fs

/-! ### validation as an `OTelEvent` and the data source -/

structure Event where
  jobName : String
  jobId : String
  eventType : String
  eventId : String
  start : Int
  stop : Int
  app : String
  parent : Option String
  children : Option (List String)
  deriving Repr

def getStr (r : Record) (k : String) : Option String :=
  match r.find? (·.1 == k) with
  | some (_, .str s) => some s
  | _ => none

/-- digits with single underscores allowed between them -/
def digitsLax : List Char → Option Nat
  | [] => none
  | cs =>
    if cs.head? == some '_' || cs.getLast? == some '_' then none
    else if (cs.zip cs.tail).any (fun (a, b) => a == '_' && b == '_') then none
    else
      let ds := cs.filter (· != '_')
      if ds.all Char.isDigit && !ds.isEmpty then some (ds.foldl (fun n c => n * 10 + (c.toNat - 48)) 0) else none

/-- pydantic's lax `str -> int`: surrounding white space, a sign, underscores between digits, and a fraction
of zeros only are accepted -/
def parseIntLax (s : String) : Option Int :=
  let cs := s.trimAscii.toString.toList
  let (neg, cs) := match cs with
    | '-' :: r => (true, r)
    | '+' :: r => (false, r)
    | r => (false, r)
  let (ip, fp) := (cs.takeWhile (· != '.'), (cs.dropWhile (· != '.')))
  let fracOk := match fp with
    | [] => true
    | _ :: zs => !zs.isEmpty && zs.all (· == '0')
  if !fracOk then none else
  (digitsLax ip).map fun n => if neg then -(n : Int) else (n : Int)

def getInt (r : Record) (k : String) : Option Int :=
  match r.find? (·.1 == k) with
  | some (_, .num n) => some n
  | some (_, .str s) => parseIntLax s
  | _ => none

/-- `Optional[str]`: present-and-string, or null; anything else is a validation error -/
def getOptStr (r : Record) (k : String) : Option (Option String) :=
  match r.find? (·.1 == k) with
  | some (_, .str s) => some (some s)
  | some (_, .null) => some none
  | none => none            -- a required field (no default) that the mapping does not produce
  | _ => none

def getOptStrList (r : Record) (k : String) : Option (Option (List String)) :=
  match r.find? (·.1 == k) with
  | none => some none
  | some (_, .null) => some none
  | some (_, .arr l) => (l.mapM fun (x : Json) => match x with
      | Json.str s => some s
      | _ => none).map some
  | _ => none

/-- `OTelEvent(**record)`; `none` = ValidationError (the record is skipped) -/
def validate (r : Record) : Option Event := do
  let jobName ← getStr r "job_name"
  let jobId ← getStr r "job_id"
  let eventType ← getStr r "event_type"
  let eventId ← getStr r "event_id"
  let start ← getInt r "start_timestamp"
  let stop ← getInt r "end_timestamp"
  let app ← getStr r "application_name"
  let parent ← getOptStr r "parent_event_id"
  let children ← getOptStrList r "child_event_ids"
  pure { jobName, jobId, eventType, eventId, start, stop, app, parent, children }

/-- the events of a sequence of documents (one per file, or one per line in per-line mode) -/
def source (p : Program) (docs : List Json) : List Event :=
  docs.flatMap fun d => (extract p d).filterMap validate

end O2P.Jq
