/-
M2 `Seq` — the sequencer (tel2puml/otel_to_pv/sequence_otel.py, after the three `fix:` commits).

A trace is a rose tree of spans.  Sequencing = (1) rename spans by the *original* types of their
children, (2) arrange every sibling list into groups (prior-information groups, each ordered by start,
groups ordered by start, and with `async` the overlap sweep carrying the running maximum end),
(3) thread "previous ids" through the arranged tree in post-order.

Core Lean only.
-/
namespace O2P.Seq

structure Span where
  id : String
  typ : String
  start : Int
  stop : Int
  deriving DecidableEq, Repr

inductive Tree where
  | node : Span → List Tree → Tree
  deriving Repr

def Tree.span : Tree → Span
  | .node s _ => s
def Tree.kids : Tree → List Tree
  | .node _ cs => cs

/-- arranged tree: children already split into ordered groups -/
inductive GTree where
  | node : Span → List (List GTree) → GTree
  deriving Repr

def GTree.span : GTree → Span
  | .node s _ => s

/-! ### generic list machinery (polymorphic so that it applies to spans and to arranged trees) -/

section generic
variable {α : Type}

/-- stable insertion: `x` goes before the first element with a strictly larger key … -/
def insertBy (key : α → Int) (x : α) : List α → List α
  | [] => [x]
  | y :: ys => if key y < key x then y :: insertBy key x ys else x :: y :: ys
    -- (equal keys: `x`, which came earlier in the input, stays first — Python's `sorted` is stable)

def sortBy (key : α → Int) (xs : List α) : List α := xs.foldr (insertBy key) []

def lookup (k : String) : List (String × String) → Option String
  | [] => none
  | (a, b) :: r => if a = k then some b else lookup k r

def dedup : List String → List String
  | [] => []
  | x :: xs => x :: (dedup xs).filter (· ≠ x)

/-- `group_events_using_async_information`: one group per group id that has a member (in the
order the ids appear in the map), then the unmapped elements as singletons. -/
def groupPrior (typ : α → String) (gmap : List (String × String)) (xs : List α) : List (List α) :=
  let gids := dedup (gmap.map Prod.snd)
  let grouped := gids.map fun g => xs.filter fun x => lookup (typ x) gmap == some g
  grouped.filter (fun g => !g.isEmpty) ++ (xs.filter fun x => (lookup (typ x) gmap).isNone).map ([·])

def headKey (key : α → Int) : List α → Int
  | [] => 0
  | x :: _ => key x

/-- `order_groups_by_start_timestamp` -/
def orderGroups (start : α → Int) (gs : List (List α)) : List (List α) :=
  sortBy (headKey start) (gs.map (sortBy start))

def maxStop (stop : α → Int) : List α → Int
  | [] => 0
  | x :: xs => xs.foldl (fun m y => max m (stop y)) (stop x)

/-- the overlap sweep over groups ordered by start: `cur` is the chain being built, `mx` the
latest end seen in it -/
def sweepGo (start stop : α → Int) (cur : List α) (mx : Int) : List (List α) → List (List α)
  | [] => [cur]
  | g :: gs =>
    if mx < headKey start g then cur :: sweepGo start stop g (maxStop stop g) gs
    else sweepGo start stop (cur ++ g) (max mx (maxStop stop g)) gs

/-- `sequence_groups_of_otel_events_asynchronously` (on already ordered groups) -/
def sweep (start stop : α → Int) : List (List α) → List (List α)
  | [] => []
  | g :: gs => sweepGo start stop g (maxStop stop g) gs

/-- the unrepaired sweep: compares with the end of the last appended element -/
def sweepGoOld (start stop : α → Int) (cur : List α) : List (List α) → List (List α)
  | [] => [cur]
  | g :: gs =>
    if headKey stop cur.reverse < headKey start g then cur :: sweepGoOld start stop g gs
    else sweepGoOld start stop (cur ++ g) gs
def sweepOld (start stop : α → Int) : List (List α) → List (List α)
  | [] => []
  | g :: gs => sweepGoOld start stop g gs

/-- sibling arrangement for one parent -/
def arrange (typ : α → String) (start stop : α → Int) (async : Bool)
    (gmap : List (String × String)) (xs : List α) : List (List α) :=
  let gs := orderGroups start (groupPrior typ gmap xs)
  if async then sweep start stop gs else gs

end generic

/-! ### configuration -/

structure Cfg where
  async : Bool
  /-- parent type ↦ (child type ↦ group id) -/
  groups : List (String × List (String × String))
  /-- type ↦ (new type, child types that trigger the renaming) -/
  renames : List (String × String × List String)
  deriving Repr

def Cfg.groupMap (c : Cfg) (parentTyp : String) : List (String × String) :=
  match c.groups.find? (·.1 == parentTyp) with
  | some (_, m) => m
  | none => []

def Cfg.rename? (c : Cfg) (typ : String) : Option (String × List String) :=
  (c.renames.find? (·.1 == typ)).map (·.2)

/-! ### renaming (decided on the types as ingested: simultaneous) -/

def newTyp (c : Cfg) (typ : String) (childTyps : List String) : String :=
  match c.rename? typ with
  | some (to, trig) => if childTyps.any (trig.contains ·) then to else typ
  | none => typ

def rename (c : Cfg) : Tree → Tree
  | .node s cs =>
    .node { s with typ := newTyp c s.typ (cs.map fun t => t.span.typ) } (cs.attach.map fun ⟨t, _⟩ => rename c t)
termination_by t => sizeOf t
decreasing_by
  simp_wf
  have := List.sizeOf_lt_of_mem ‹t ∈ cs›
  omega

/-! ### arranging and linking -/

def arr (c : Cfg) : Tree → GTree
  | .node s cs =>
    .node s (arrange (fun g => g.span.typ) (fun g => g.span.start) (fun g => g.span.stop) c.async
      (c.groupMap s.typ) (cs.attach.map fun ⟨t, _⟩ => arr c t))
termination_by t => sizeOf t
decreasing_by
  simp_wf
  have := List.sizeOf_lt_of_mem ‹t ∈ cs›
  omega

abbrev Links := List (String × List String)

mutual
/-- `sequence_otel_event_ancestors`: links of the subtree and, last, of its root -/
def linkT : GTree → List String → Links
  | .node s gs, prev =>
    let r := linkGs gs prev
    r.1 ++ [(s.id, r.2)]
/-- groups in order: each group's members get the previous group's ids -/
def linkGs : List (List GTree) → List String → Links × List String
  | [], prev => ([], prev)
  | g :: gs, prev =>
    let o := linkG g prev
    let r := linkGs gs (g.map fun t => t.span.id)
    (o ++ r.1, r.2)
def linkG : List GTree → List String → Links
  | [], _ => []
  | t :: ts, prev => linkT t prev ++ linkG ts prev
end

/-- the whole sequencer on one trace: renamed types and previous-event links -/
def sequence (c : Cfg) (t : Tree) : Tree × Links :=
  let t' := rename c t
  (t', linkT (arr c t') [])

/-- accumulator-free form of the sweep: the latest end of the current chain is recomputed from the
chain itself -/
def sweepSpec {α : Type} (start stop : α → Int) : List (List α) → List (List α)
  | [] => []
  | [g] => [g]
  | g :: h :: gs =>
    if maxStop stop g < headKey start h then g :: sweepSpec start stop (h :: gs)
    else sweepSpec start stop ((g ++ h) :: gs)
termination_by gs => gs.length

/-- previous-event links are well founded w.r.t. the emission order: every previous id is in
`seen` or was emitted earlier -/
def wfLinks (seen : List String) : Links → Prop
  | [] => True
  | (x, ps) :: r => (∀ p ∈ ps, p ∈ seen) ∧ wfLinks (x :: seen) r

/-! ### ids, for the statements -/

mutual
def Tree.ids : Tree → List String
  | .node s cs => s.id :: idsL cs
def idsL : List Tree → List String
  | [] => []
  | t :: ts => t.ids ++ idsL ts
end

mutual
/-- ids in emission (post-) order -/
def GTree.ids : GTree → List String
  | .node s gs => gidsLL gs ++ [s.id]
def gidsLL : List (List GTree) → List String
  | [] => []
  | g :: gs => gidsL g ++ gidsLL gs
def gidsL : List GTree → List String
  | [] => []
  | t :: ts => t.ids ++ gidsL ts
end

end O2P.Seq
