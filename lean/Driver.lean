import Lean.Data.Json
import O2P.Model.Time
import O2P.Model.Seq
import O2P.Model.Store
import O2P.Model.Jq
import O2P.Model.JqCore
import O2P.Model.Diagram
import O2P.Model.Learn
import O2P.Props.C07
import O2P.Props.C14
import O2P.Model.Gate
import O2P.Model.Writer
/-!
Model driver: one JSON request per line on stdin, one JSON reply per line on stdout.
Numbers that may exceed 2^53 travel as decimal strings.
-/
open Lean

def getStr (j : Json) (k : String) : Except String String := do
  match j.getObjVal? k with
  | .ok (.str s) => pure s
  | _ => throw s!"missing string field {k}"

def getNatS (j : Json) (k : String) : Except String Nat := do
  let s ← getStr j k
  match s.toNat? with
  | some n => pure n
  | none => throw s!"field {k} is not a natural number"

def natS (n : Nat) : Json := Json.str (toString n)

namespace TimeOps
open O2P.Time

def opFromNanos (j : Json) : Except String Json := do
  let n ← getNatS j "n"
  let x0 := fl n 1
  let x1 := fl x0.num (x0.den * O2P.Gen.nanoDivisor)
  let p := fromNanosParts n
  pure <| Json.mkObj [("s", Json.str (String.ofList (O2P.Time.fromNanos n))), ("secs", natS p.1), ("us", natS p.2),
    ("x1num", natS x1.num), ("x1den", natS x1.den), ("micros", natS (fromNanosMicros n))]

def opToNanos (j : Json) : Except String Json := do
  let s ← getStr j "s"
  pure <| Json.mkObj [("n", match O2P.Time.toNanos s.toList with
    | some n => natS n
    | none => Json.null)]

def opFormatMicros (j : Json) : Except String Json := do
  let k ← getNatS j "k"
  pure <| Json.mkObj [("s", Json.str (String.ofList (O2P.Time.formatMicros k)))]

end TimeOps

def getArr (j : Json) (k : String) : Except String (Array Json) := do
  match j.getObjVal? k with
  | .ok (.arr a) => pure a
  | _ => throw s!"missing array field {k}"

def getIntS (j : Json) (k : String) : Except String Int := do
  let s ← getStr j k
  match s.toInt? with
  | some n => pure n
  | none => throw s!"field {k} is not an integer"

def getBool (j : Json) (k : String) : Except String Bool := do
  match j.getObjVal? k with
  | .ok (.bool b) => pure b
  | _ => throw s!"missing bool field {k}"

def strList (a : Array Json) : Except String (List String) :=
  a.toList.mapM fun x => match x with
    | .str s => pure s
    | _ => throw "expected string"

def pairList (a : Array Json) : Except String (List (String × String)) :=
  a.toList.mapM fun x => match x with
    | .arr #[.str k, .str v] => pure (k, v)
    | _ => throw "expected [string, string]"

namespace SeqOps
open O2P.Seq

structure Flat where
  span : Span
  parent : Option String
  kids : List String

def parseFlat (j : Json) : Except String Flat := do
  let id ← getStr j "id"
  let typ ← getStr j "typ"
  let start ← getIntS j "start"
  let stop ← getIntS j "end"
  let parent := match j.getObjVal? "parent" with
    | .ok (.str p) => some p
    | _ => none
  let kids ← strList (← getArr j "children")
  pure { span := { id, typ, start, stop }, parent, kids }

/-- glue (not part of the proved model): flat id map → rose tree, children in `child_event_ids` order -/
def build (fs : List Flat) : Nat → String → Except String Tree
  | 0, _ => throw "cycle"
  | fuel + 1, id => do
    match fs.find? (·.span.id == id) with
    | none => throw "missing-child"
    | some f =>
      let cs ← f.kids.mapM (build fs fuel)
      pure (.node f.span cs)

def parseCfg (j : Json) : Except String Cfg := do
  let async ← getBool j "async"
  let groups ← (← getArr j "groups").toList.mapM fun g => do
    let p ← getStr g "parent"
    let m ← pairList (← getArr g "map")
    pure (p, m)
  let renames ← (← getArr j "renames").toList.mapM fun r => do
    let f ← getStr r "from"
    let t ← getStr r "to"
    let c ← strList (← getArr r "children")
    pure (f, t, c)
  pure { async, groups, renames }

partial def typesOf : Tree → List (String × String)
  | .node s cs => (s.id, s.typ) :: (cs.map typesOf).flatten

/-- `sequence_otel_jobs` on one job given as the flat id map the code receives -/
def job (j : Json) : Except String Json := do
  let cfg ← parseCfg j
  let fs ← (← getArr j "spans").toList.mapM parseFlat
  -- convert_otel_event_stream_to_event_id_to_otelevent_map: every referenced parent must be present
  if fs.any (fun f => match f.parent with
      | some p => !(fs.any (·.span.id == p))
      | none => false) then
    return Json.mkObj [("status", "disconnected")]
  match fs.filter (·.parent.isNone) with
  | [r] =>
    match build fs (fs.length + 1) r.span.id with
    | .error e => pure <| Json.mkObj [("status", Json.str e)]
    | .ok t =>
      let (t', links) := sequence cfg t
      pure <| Json.mkObj [("status", "ok"),
        ("links", Json.arr (links.map fun (i, ps) => Json.arr #[Json.str i, Json.arr (ps.map Json.str).toArray]).toArray),
        ("types", Json.arr ((typesOf t').map fun (i, ty) => Json.arr #[Json.str i, Json.str ty]).toArray)]
  | _ => pure <| Json.mkObj [("status", "rootcount")]

end SeqOps

namespace StoreOps
open O2P.Store

def parseNode (j : Json) : Except String Node := do
  pure { jobName := ← getStr j "jobName", jobId := ← getStr j "jobId", typ := ← getStr j "typ",
         id := ← getStr j "id", start := ← getIntS j "start", stop := ← getIntS j "end",
         app := ← getStr j "app",
         -- `convert_otel_event_to_node_model`: `parent_event_id or None` (the empty string is falsy)
         parent := match j.getObjVal? "parent" with
           | .ok (.str p) => if p.isEmpty then none else some p
           | _ => none }

def nodeJson (n : Node) : Json :=
  Json.mkObj [("jobName", n.jobName), ("jobId", n.jobId), ("typ", n.typ), ("id", n.id),
    ("start", Json.str (toString n.start)), ("end", Json.str (toString n.stop)), ("app", n.app),
    ("parent", match n.parent with
      | some p => Json.str p
      | none => Json.null)]

partial def shapeJson : Shape → Json
  | .mk t cs => Json.arr (#[Json.str t] ++ (cs.map shapeJson).toArray)

def parseFilter (j : Json) : Except String (Option (List (String × List String))) :=
  match j with
  | .null => pure none
  | .arr a => do
    let l ← a.toList.mapM fun e => match e with
      | .arr #[.str nm, .arr ids] => do pure (nm, ← strList ids)
      | _ => throw "bad filter entry"
    pure (some l)
  | _ => throw "bad filter"

def outcomeJson : Outcome → Json
  | .ok => "ok"
  | .integrity => "integrity"

def step (batch : Nat) (buffer : Int) (h : Holder) (st : Json) : Except String (Holder × Json) := do
  match st with
  | .arr a =>
    let tag : Option Json := a[0]?
    let arg : Option Json := a[1]?
    match tag with
    | some (.str "newrun") => pure (Holder.fresh h.store, "ok")
    | some (.str "ingest") =>
      let evs ← match arg with
        | some (.arr es) => es.toList.mapM parseNode
        | _ => throw "ingest needs events"
      let (h1, o) := ingest batch h evs
      pure (h1, outcomeJson o)
    | some (.str "clean_inconsistent") => pure ({ h with store := removeInconsistent h.store }, "ok")
    | some (.str "clean_window") =>
      match timeWindow buffer h with
      | none => pure (h, "valueerror")
      | some w => pure ({ h with store := removeOutside w h.store }, "ok")
    | some (.str "rename") => pure ({ h with store := renameByRoot h.store }, "ok")
    | some (.str "unique") =>
      match timeWindow buffer h with
      | none => pure (h, "valueerror")
      | some w =>
        match computeHashes w h.store with
        | none => pure (h, "integrity")
        | some s1 =>
          let cls := shapeClasses s1
          pure ({ h with store := s1 }, Json.arr (cls.map fun (nm, sh, ids) =>
            Json.mkObj [("name", nm), ("shape", shapeJson sh), ("ids", Json.arr (ids.map Json.str).toArray)]).toArray)
    | some (.str "stream") =>
      let filt ← parseFilter (arg.getD Json.null)
      let r := stream h.store filt
      pure (h, Json.arr (r.map fun (nm, jobs) => Json.arr #[Json.str nm, Json.arr (jobs.map fun (jid, ns) =>
        Json.arr #[Json.str jid, Json.arr (ns.map fun n =>
          Json.mkObj [("node", nodeJson n), ("children", Json.arr ((childrenOf h.store n.id).map Json.str).toArray)]).toArray]).toArray]).toArray)
    | some (.str "run") =>
      -- ["run", ingest?, unique?, [events]]: one whole run in a new process
      let a1 : Option Json := a[1]?
      let a2 : Option Json := a[2]?
      let a3 : Option Json := a[3]?
      let ing := match a1 with | some (.bool b) => b | _ => false
      let uq := match a2 with | some (.bool b) => b | _ => false
      let evs ← match a3 with
        | some (.arr es) => es.toList.mapM parseNode
        | _ => pure []
      let (s1, st) := runOnce batch buffer ing uq evs h.store
      let stj : Json := match st with
        | .ok => "ok"
        | .integrity => "integrity"
        | .valueerror => "valueerror"
      let cls := shapeClasses s1
      pure (Holder.fresh s1, Json.mkObj [("status", stj),
        ("classes", if uq && st == .ok then Json.arr (cls.map fun (nm, sh, ids) =>
            Json.mkObj [("name", nm), ("shape", shapeJson sh), ("ids", Json.arr (ids.map Json.str).toArray)]).toArray
          else Json.null)])
    | some (.str "dump") =>
      pure (h, Json.mkObj [("nodes", Json.arr (h.store.nodes.map nodeJson).toArray),
        ("assoc", Json.arr (h.store.assoc.map fun (p, c) => Json.arr #[Json.str p, Json.str c]).toArray),
        ("hashes", Json.arr (h.store.hashes.map fun (jid, nm, _) => Json.arr #[Json.str jid, Json.str nm]).toArray)])
    | _ => throw "unknown step"
  | _ => throw "step must be an array"

def script (j : Json) : Except String Json := do
  let batch ← getNatS j "batch"
  let buffer ← getIntS j "buffer"
  let steps ← getArr j "script"
  let mut h := Holder.fresh Store.empty
  let mut out : Array Json := #[]
  for st in steps do
    let (h1, r) ← step batch buffer h st
    h := h1
    out := out.push r
  pure (Json.mkObj [("results", Json.arr out)])

end StoreOps

namespace JqOps
abbrev JV := O2P.Jq.Json

/-- documents travel in a tagged form that keeps key order and big integers:
["z"] null, ["b", bool], ["n", "123"], ["s", str], ["a", [..]], ["o", [[k, v], ..]] -/
partial def decode (j : Json) : Except String JV := do
  match j with
  | .arr #[.str "z"] => pure O2P.Jq.Json.null
  | .arr #[.str "b", .bool b] => pure (O2P.Jq.Json.bool b)
  | .arr #[.str "n", .str n] => match n.toInt? with
    | some i => pure (O2P.Jq.Json.num i)
    | none => throw "bad number"
  | .arr #[.str "s", .str s] => pure (O2P.Jq.Json.str s)
  | .arr #[.str "a", .arr xs] => do pure (O2P.Jq.Json.arr (← xs.toList.mapM decode))
  | .arr #[.str "o", .arr kvs] => do
    let l ← kvs.toList.mapM fun kv => match kv with
      | .arr #[.str k, v] => do pure (k, ← decode v)
      | _ => throw "bad object entry"
    pure (O2P.Jq.Json.obj l)
  | _ => throw "bad tagged json"

partial def encode : JV → Json
  | .null => Json.null
  | .bool b => Json.bool b
  | .num n => Json.mkObj [("$int", Json.str (toString n))]
  | .str s => Json.str s
  | .arr l => Json.arr (l.map encode).toArray
  | .obj kv => Json.mkObj (kv.map fun (k, v) => (k, encode v))

def optStr (j : Json) (k : String) : Option String :=
  match j.getObjVal? k with
  | .ok (.str s) => some s
  | _ => none

def parseMapping (j : Json) : Except String (List (String × O2P.Jq.FieldSpecN)) := do
  let fs ← getArr j "mapping"
  fs.toList.mapM fun f => do
    let name ← getStr f "name"
    let isArray ← getBool f "array"
    let parts ← (← getArr f "parts").toList.mapM fun p => match p with
      | .arr alts => alts.toList.mapM fun a => do
          pure ({ keyPath := ← getStr a "kp", keyValue := optStr a "kv", valuePath := optStr a "vp" } : O2P.Jq.AltSpec)
      | _ => throw "part must be an array"
    pure (name, ({ parts, isArray } : O2P.Jq.FieldSpecN))

def eventJson (e : O2P.Jq.Event) : Json :=
  Json.mkObj [("job_name", e.jobName), ("job_id", e.jobId), ("event_type", e.eventType), ("event_id", e.eventId),
    ("start_timestamp", Json.str (toString e.start)), ("end_timestamp", Json.str (toString e.stop)),
    ("application_name", e.app),
    ("parent_event_id", match e.parent with
      | some p => Json.str p
      | none => Json.null),
    ("child_event_ids", match e.children with
      | some l => Json.arr (l.map Json.str).toArray
      | none => Json.null)]

def run (j : Json) : Except String Json := do
  let m ← parseMapping j
  let docs ← (← getArr j "docs").toList.mapM decode
  let p := O2P.Jq.compile m
  let recs := docs.map fun d => (O2P.Jq.extract p d).map fun r => Json.mkObj (r.map fun (k, v) => (k, encode v))
  -- the emitted query: its text, whether the program is well-formed, and what the jq semantics makes of it
  let q := O2P.Jq.emitProgram p
  let evald := docs.map fun d =>
    let r := O2P.Jq.runQuery q d
    Json.mkObj [("err", Json.bool r.err),
      ("outs", Json.arr (r.outs.map encode).toArray)]
  pure <| Json.mkObj [("records", Json.arr (recs.map fun rs => Json.arr rs.toArray).toArray),
    ("events", Json.arr ((O2P.Jq.source p docs).map eventJson).toArray),
    ("query", Json.str (O2P.Jq.emitText m)),
    ("wf", Json.bool (O2P.Jq.wfProgram p)),
    ("evaluated", Json.arr evald.toArray)]

end JqOps

namespace DgOps
open O2P.Diagram

def opStr : Op → String
  | .and => "AND"
  | .or => "OR"
  | .xor => "XOR"

partial def blkJson : Blk → Json
  | .ev n => Json.arr #["ev", Json.str n]
  | .seq l => Json.arr #["seq", Json.arr (l.map blkJson).toArray]
  | .fork op bs => Json.arr #["fork", Json.str (opStr op), Json.arr (bs.map blkJson).toArray]
  | .loop b => Json.arr #["loop", blkJson b]
  | .brk => Json.arr #["brk"]
  | .detach => Json.arr #["detach"]

partial def blkOfJson (j : Json) : Except String Blk := do
  match j with
  | .arr #[.str "ev", .str n] => pure (.ev n)
  | .arr #[.str "seq", .arr l] => do pure (.seq (← l.toList.mapM blkOfJson))
  | .arr #[.str "fork", .str o, .arr l] => do
    let op ← match o with
      | "AND" => pure Op.and
      | "OR" => pure Op.or
      | "XOR" => pure Op.xor
      | _ => throw "bad operator"
    pure (.fork op (← l.toList.mapM blkOfJson))
  | .arr #[.str "loop", b] => do pure (.loop (← blkOfJson b))
  | .arr #[.str "brk"] => pure .brk
  | .arr #[.str "detach"] => pure .detach
  | _ => throw "bad block"

/-- a definition is given as text (`text`) or as a block (`blk`) -/
def getDef (j : Json) (textKey blkKey : String) : Except String Blk :=
  match j.getObjVal? textKey with
  | .ok (.str t) => match parse t with
    | .ok b => pure b
    | .error e => throw s!"parse: {e}"
  | _ => match j.getObjVal? blkKey with
    | .ok b => blkOfJson b
    | .error _ => throw s!"missing {textKey}/{blkKey}"

def jobJson (jb : Job) : Json :=
  Json.arr (jb.map fun n => Json.mkObj [("id", Json.num (JsonNumber.fromNat n.id)), ("typ", n.typ),
    ("prev", Json.arr (n.prev.map fun p => Json.num (JsonNumber.fromNat p)).toArray)]).toArray

def jobOfJson (j : Json) : Except String Job := do
  match j with
  | .arr ns => ns.toList.mapM fun n => do
      let id ← match n.getObjVal? "id" with
        | .ok v => match v.getNat? with
          | .ok k => pure k
          | .error _ => throw "bad id"
        | .error _ => throw "missing id"
      let typ ← getStr n "typ"
      let prev ← (← getArr n "prev").toList.mapM fun p => match p.getNat? with
        | .ok k => pure k
        | .error _ => throw "bad prev"
      pure ({ id, typ, prev } : JNode)
  | _ => throw "job must be an array"

def getK (j : Json) : Nat := match j.getObjVal? "k" with
  | .ok v => (v.getNat?.toOption).getD 1
  | .error _ => 1

def getCap (j : Json) : Nat := match j.getObjVal? "cap" with
  | .ok v => (v.getNat?.toOption).getD 100000
  | .error _ => 100000

def opParse (j : Json) : Except String Json := do
  let t ← getStr j "text"
  match parse t with
  | .ok b => pure <| Json.mkObj [("ok", true), ("blk", blkJson b), ("names", Json.arr ((names b).map Json.str).toArray)]
  | .error e => pure <| Json.mkObj [("ok", false), ("error", e)]

def tooMany (k : Nat) (d : Blk) (limit : Nat) : Except String Unit :=
  if countUB k d > limit then throw s!"too-many-runs {countUB k d}" else pure ()

def getLimit (j : Json) : Nat := match j.getObjVal? "limit" with
  | .ok v => (v.getNat?.toOption).getD 20000
  | .error _ => 20000

def opRuns (j : Json) : Except String Json := do
  let d ← getDef j "text" "blk"
  tooMany (getK j) d (getLimit j)
  let rs := runs (getK j) d
  pure <| Json.mkObj [("count", Json.num rs.length), ("jobs", Json.arr ((rs.take (getCap j)).map jobJson).toArray)]

/-- which of the given jobs does the definition accept (loops up to `k`) -/
def opAccepts (j : Json) : Except String Json := do
  let d ← getDef j "text" "blk"
  let k := getK j
  tooMany k d (getLimit j)
  let rs := runs k d
  let jobs ← (← getArr j "jobs").toList.mapM jobOfJson
  let res := jobs.map fun jb =>
    let key := typeKey jb
    rs.any fun r => r.length == jb.length && typeKey r == key && isoB r jb
  pure <| Json.mkObj [("runs", Json.num rs.length), ("accepted", Json.arr (res.map Json.bool).toArray)]

/-- is every job of `learned` (loops up to `k`, at most `cap` of them, evenly spread) a job of `source` -/
def opSubset (j : Json) : Except String Json := do
  let learned ← getDef j "learned_text" "learned"
  let source ← getDef j "source_text" "source"
  let k := getK j
  let cap := getCap j
  tooMany k learned (getLimit j)
  tooMany k source (getLimit j)
  let lr := runs k learned
  let sr := runs k source
  let stride := if lr.length ≤ cap then 1 else lr.length / cap + 1
  let sample := (lr.zipIdx.filter fun (_, i) => i % stride == 0).map (·.1)
  let bad := sample.filter fun jb =>
    let key := typeKey jb
    !(sr.any fun r => r.length == jb.length && typeKey r == key && isoB r jb)
  pure <| Json.mkObj [("learned_runs", Json.num lr.length), ("source_runs", Json.num sr.length),
    ("checked", Json.num sample.length), ("rejected", Json.num bad.length),
    ("first_rejected", match bad.head? with
      | some b => jobJson b
      | none => Json.null)]

end DgOps

namespace LearnOps
open O2P.Learn

def parsePV (j : Json) : Except String PV := do
  let prev ← match j.getObjVal? "previousEventIds" with
    | .ok (.arr a) => strList a
    | .ok (.str s) => pure [s]
    | _ => pure []
  pure { jobId := ← getStr j "jobId", eventId := ← getStr j "eventId", typ := ← getStr j "eventType", prev }

def esetJson (s : ESet) : Json := Json.arr (s.map Json.str).toArray

def modelJson (m : Model) : Json :=
  Json.arr (m.map fun e => Json.mkObj [("typ", e.typ), ("outs", Json.arr (e.outs.map esetJson).toArray),
    ("ins", Json.arr (e.ins.map esetJson).toArray)]).toArray

/-- ingest chunks of jobs; with `through_files` every chunk boundary crosses toJson/fromJson -/
def opIngest (j : Json) : Except String Json := do
  let chunks ← (← getArr j "chunks").toList.mapM fun c => match c with
    | .arr jobs => jobs.toList.mapM fun jb => match jb with
      | .arr evs => evs.toList.mapM parsePV
      | _ => throw "job must be an array"
    | _ => throw "chunk must be an array"
  let through := match j.getObjVal? "through_files" with
    | .ok (.bool b) => b
    | _ => false
  if chunks.any fun c => c.any fun jb => !wfJob jb then
    return Json.mkObj [("status", "malformed-job")]
  let mut m : Model := []
  for c in chunks do
    m := ingest m c
    if through then
      match fromJson (toJson m) with
      | some m' => m := m'
      | none => return Json.mkObj [("status", "duplicate-type")]
  pure <| Json.mkObj [("status", "ok"), ("model", modelJson m),
    ("file", Json.arr ((toJson m).map fun e => Json.mkObj [("eventType", e.typ),
      ("outgoingEventSets", Json.arr (e.outs.map fun s => Json.arr (s.map fun (t, n) =>
        Json.mkObj [("eventType", t), ("count", Json.num n)]).toArray).toArray),
      ("incomingEventSets", Json.arr (e.ins.map fun s => Json.arr (s.map fun (t, n) =>
        Json.mkObj [("eventType", t), ("count", Json.num n)]).toArray).toArray)]).toArray)]

end LearnOps

namespace GraphOps
open O2P.Graph

def edgesOf (j : Json) (k : String) : Except String (List Edge) := do pairList (← getArr j k)

def run (j : Json) : Except String Json := do
  let kind ← getStr j "kind"
  match kind with
  | "topo" => do
    let ord ← strList (← getArr j "ord")
    pure <| Json.mkObj [("ok", isTopo ord (← edgesOf j "edges"))]
  | "contract" => do
    let ord ← strList (← getArr j "ord")
    let pm ← pairList (← getArr j "part")
    let part : String → String := fun x => match pm.find? (·.1 == x) with
      | some p => p.2
      | none => x
    pure <| Json.mkObj [("ok", contractOK part ord (← edgesOf j "edges"))]
  | "once" => do
    pure <| Json.mkObj [("ok", exactlyOnce (← strList (← getArr j "leaves")) (← strList (← getArr j "inputs")))]
  | "entry" => do
    pure <| Json.mkObj [("ok", singleEntry (← strList (← getArr j "nodes")) (← edgesOf j "edges"))]
  | _ => throw "unknown graph check"

end GraphOps

namespace PVFileOps

def valJson : O2P.PVFile.Val → Json
  | .str s => Json.str s
  | .list l => Json.arr (l.map Json.str).toArray

def pveJson (e : O2P.PVFile.PVE) : Json :=
  Json.mkObj [("jobId", e.jobId), ("eventId", e.eventId), ("eventType", e.typ), ("timestamp", e.timestamp),
    ("previousEventIds", Json.arr (e.prev.map Json.str).toArray), ("applicationName", e.app), ("jobName", e.jobName)]

def run (j : Json) : Except String Json := do
  let c ← match (← strList (← getArr j "cfg")) with
    | [a, b, c, d, e, f, g] => pure (⟨a, b, c, d, e, f, g⟩ : O2P.PVFile.Cfg)
    | _ => throw "cfg needs seven names"
  let evs ← (← getArr j "events").toList.mapM fun (e : Json) => do
    let prev ← match e.getObjVal? "previousEventIds" with
      | .ok (.arr a) => strList a
      | _ => pure []
    pure ({ jobId := ← _root_.getStr e "jobId", eventId := ← _root_.getStr e "eventId", typ := ← _root_.getStr e "eventType",
            timestamp := ← _root_.getStr e "timestamp", prev, app := ← _root_.getStr e "applicationName",
            jobName := ← _root_.getStr e "jobName" } : O2P.PVFile.PVE)
  let saved := evs.map (O2P.PVFile.save c)
  pure <| Json.mkObj [
    ("saved", Json.arr (saved.map fun d => Json.mkObj (d.map fun (k, v) => (k, valJson v))).toArray),
    ("loaded", Json.arr (saved.map fun d => match O2P.PVFile.load c d with
      | .ok e => pveJson e
      | .error m => Json.mkObj [("error", m)]).toArray)]

end PVFileOps

namespace GateOps
open O2P.Gate

def opName : O2P.Gate.Op → String
  | .and => "+"
  | .or => "O"
  | .xor => "X"

partial def gateJson : Gate → Json
  | .leaf a => Json.str a
  | .node op cs => Json.arr (#[Json.str (opName op)] ++ (cs.map gateJson).toArray)

partial def gateOfJson (j : Json) : Except String Gate := do
  match j with
  | .str a => pure (.leaf a)
  | .arr a =>
    match a.toList with
    | .str o :: cs => do
      let op ← match o with
        | "+" => pure O2P.Gate.Op.and
        | "O" => pure O2P.Gate.Op.or
        | "X" => pure O2P.Gate.Op.xor
        | _ => throw s!"operator {o}"
      pure (.node op (← cs.mapM gateOfJson))
    | _ => throw "bad gate"
  | _ => throw "bad gate"

def famJson (f : List (List String)) : Json := Json.arr (f.map fun s => Json.arr (s.map Json.str).toArray).toArray

/-- the whole domain over n events: tree, family, membership in the exactness sub-class -/
def opDomain (j : Json) : Except String Json := do
  let n ← match j.getObjVal? "n" with
    | .ok v => match v.getNat? with
      | .ok k => pure k
      | .error _ => throw "n"
    | .error _ => throw "n"
  pure <| Json.arr ((domain n).map fun g => Json.mkObj [("tree", gateJson g), ("family", famJson (family g)),
    ("subclass", inSubclass g)]).toArray

/-- soundness / exactness of an inferred tree against the source tree -/
def strsOf (j : Json) : Except String (List String) := match j with
  | .arr xs => xs.toList.mapM fun x => match x with
    | .str s => pure s
    | _ => throw "string expected"
  | _ => throw "array expected"

/-- every outcome of `get_weighted_cover` on one input (null = None) -/
def opCover (j : Json) : Except String Json := do
  let es ← (← getArr j "sets").toList.mapM strsOf
  let u ← strsOf (← j.getObjVal? "universe")
  let outs := O2P.Gate.weightedCover es u
  pure <| Json.mkObj [("outcomes", Json.arr (outs.map fun o => match o with
    | some c => famJson c
    | none => Json.null).toArray)]

partial def ptreeOfJson (j : Json) : Except String O2P.Gate.PTree := do
  match j with
  | .null => pure .tau
  | .str a => pure (.leaf a)
  | .arr xs => match xs.toList with
    | .str o :: rest => do
      let op : O2P.Gate.POp := if o == "+" then .and else if o == "O" then .or else if o == "X" then .xor else .other
      pure (.node op (← rest.mapM ptreeOfJson))
    | _ => throw "bad tree"
  | _ => throw "bad tree"

partial def ptreeJson : O2P.Gate.PTree → Json
  | .leaf a => Json.str a
  | .tau => Json.null
  | .node op cs =>
    let o := match op with
      | .and => "+"
      | .or => "O"
      | .xor => "X"
      | .other => "?"
    Json.arr (#[Json.str o] ++ (cs.map ptreeJson).toArray)

/-- `infer_or_gate_from_node` on the root and `get_extended_or_gates_from_process_tree` on the whole tree -/
def opInferOr (j : Json) : Except String Json := do
  let sets ← (← getArr j "sets").toList.mapM strsOf
  let t ← ptreeOfJson (← j.getObjVal? "tree")
  pure <| Json.mkObj [("node", ptreeJson (O2P.Gate.inferOrNode sets t)),
    ("all", ptreeJson (O2P.Gate.inferOrAll sets 50 t))]

partial def gateOfPTree : O2P.Gate.PTree → Option Gate
  | .leaf a => some (.leaf a)
  | .tau => some (.leaf "tau")
  | .node op cs => do
    let o ← match op with
      | .and => some Op.and
      | .or => some Op.or
      | .xor => some Op.xor
      | .other => none
    pure (.node o (← cs.mapM gateOfPTree))

/-- the post-processing of `calculate_logic_gates` on a raw miner tree: every outcome (every choice `max` may make in
the cover step), each judged against the source tree when one is given -/
def opPost (j : Json) : Except String Json := do
  let sets ← (← getArr j "sets").toList.mapM strsOf
  let t ← ptreeOfJson (← j.getObjVal? "raw")
  let outs := O2P.Gate.postProcess sets t
  let verdicts ← match j.getObjVal? "src" with
    | .ok sj => do
      let src ← gateOfJson sj
      pure (outs.map fun o => match gateOfPTree o with
        | some g => Json.mkObj [("sound", soundB src g), ("exact", exactB src g)]
        | none => Json.mkObj [("error", "not a gate tree")])
    | .error _ => pure (outs.map fun o => match gateOfPTree o with
        | some g => Json.mkObj [("sound", sets.all fun s => s.isEmpty || admits g s), ("exact", true)]
        | none => Json.mkObj [("error", "not a gate tree")])
  pure <| Json.mkObj [("outcomes", Json.arr (outs.map ptreeJson).toArray), ("verdicts", Json.arr verdicts.toArray)]

def opJudge (j : Json) : Except String Json := do
  let src ← gateOfJson (← (j.getObjVal? "src"))
  match j.getObjVal? "inferred" with
  | .ok ij =>
    match gateOfJson ij with
    | .error e => pure <| Json.mkObj [("error", e)]
    | .ok inf =>
      let missing := (family src).filter fun s => !admits inf s
      let extra := (family inf).filter fun s => !admits src s
      pure <| Json.mkObj [("sound", soundB src inf), ("exact", exactB src inf), ("subclass", inSubclass src),
        ("missing", famJson missing), ("extra", famJson extra)]
  | .error _ => throw "inferred"

/-- the hypotheses of `or_inference_all_sound` on a raw miner tree -/
def opWfRaw (j : Json) : Except String Json := do
  let sets ← (← getArr j "sets").toList.mapM strsOf
  let t ← ptreeOfJson (← j.getObjVal? "raw")
  pure <| Json.mkObj [("wf", O2P.Gate.wfT false sets t), ("nd", decide (O2P.Gate.NE t.labels).Nodup),
    ("names", sets.all fun s => !s.contains "" && decide s.Nodup),
    ("produces", sets.all fun s => s.isEmpty || t.produces s)]

/-- soundness against an explicit list of observed sets (no source tree): the observed sets the inferred tree does
not admit -/
def opAdmits (j : Json) : Except String Json := do
  let sets ← (← getArr j "sets").toList.mapM strsOf
  match j.getObjVal? "inferred" with
  | .ok ij =>
    match gateOfJson ij with
    | .error e => pure <| Json.mkObj [("error", e)]
    | .ok inf => pure <| Json.mkObj [("missing", famJson (sets.filter fun s => !admits inf s))]
  | .error _ => throw "inferred"

end GateOps

namespace WriterOps
open O2P.Writer

def natOf (j : Json) : Except String Nat := match j.getNat? with
  | .ok k => pure k
  | .error _ => throw "bad nat"

def op4Of (s : String) : Except String Op4 := match s with
  | "XOR" => pure .xor | "AND" => pure .and | "OR" => pure .or | "LOOP" => pure .loop
  | _ => throw "bad operator"

def posOf (s : String) : Except String Pos := match s with
  | "START" => pure .start | "PATH" => pure .path | "END" => pure .end_
  | _ => throw "bad position"

/-- {"nodes": [["ev", name, brk] | ["sub", isLoop, graph, brk] | ["oper", pos, op] | ["kill"]], "adj": [[…], …]} -/
partial def graphOfJson (j : Json) : Except String PGraph := do
  let ns ← (← getArr j "nodes").toList.mapM fun n => match n with
    | .arr #[.str "ev", .str name, .bool b] => pure (PNode.ev name b)
    | .arr #[.str "sub", .bool l, g, .bool b] => do pure (PNode.sub l (← graphOfJson g) b)
    | .arr #[.str "oper", .str p, .str o] => do pure (PNode.oper (← posOf p) (← op4Of o))
    | .arr #[.str "kill"] => pure PNode.kill
    | _ => throw "bad node"
  let adj ← (← getArr j "adj").toList.mapM fun r => match r with
    | .arr xs => xs.toList.mapM natOf
    | _ => throw "bad adjacency"
  pure (.mk ns adj)

def opWrite (j : Json) : Except String Json := do
  let g ← graphOfJson (← j.getObjVal? "graph")
  let name ← getStr j "name"
  let tab := match j.getObjVal? "tab" with
    | .ok v => (v.getNat?.toOption.getD 4)
    | .error _ => 4
  match writePumlString g name tab with
  | some t => pure <| Json.mkObj [("text", Json.str t)]
  | none => pure <| Json.mkObj [("raises", Json.bool true)]

end WriterOps

def handle (j : Json) : Except String Json := do
  let op ← getStr j "op"
  match op with
  | "time.fromNanos" => TimeOps.opFromNanos j
  | "time.toNanos" => TimeOps.opToNanos j
  | "time.formatMicros" => TimeOps.opFormatMicros j
  | "seq.job" => SeqOps.job j
  | "store.script" => StoreOps.script j
  | "jq.run" => JqOps.run j
  | "dg.parse" => DgOps.opParse j
  | "dg.runs" => DgOps.opRuns j
  | "dg.accepts" => DgOps.opAccepts j
  | "dg.subset" => DgOps.opSubset j
  | "learn.ingest" => LearnOps.opIngest j
  | "graph.check" => GraphOps.run j
  | "pvfile.roundtrip" => PVFileOps.run j
  | "gate.domain" => GateOps.opDomain j
  | "gate.judge" => GateOps.opJudge j
  | "gate.cover" => GateOps.opCover j
  | "gate.inferor" => GateOps.opInferOr j
  | "gate.post" => GateOps.opPost j
  | "gate.admits" => GateOps.opAdmits j
  | "gate.wfraw" => GateOps.opWfRaw j
  | "wr.write" => WriterOps.opWrite j
  | _ => throw s!"unknown op {op}"

partial def loop (h : IO.FS.Stream) (out : IO.FS.Stream) : IO Unit := do
  let line ← h.getLine
  if line.isEmpty then return ()
  let reply := match Json.parse line with
    | .ok j => match handle j with
      | .ok r => r
      | .error e => Json.mkObj [("error", Json.str e)]
    | .error e => Json.mkObj [("error", Json.str s!"bad json: {e}")]
  out.putStrLn reply.compress
  loop h out

def main : IO Unit := do
  loop (← IO.getStdin) (← IO.getStdout)
