import Lean.Data.Json
import O2P.Model.Time
/-!
Model driver: one JSON request per line on stdin, one JSON reply per line on stdout.
Numbers that may exceed 2^53 travel as decimal strings.
-/
open Lean

def getStr (j : Json) (k : String) : Except String String := do
  match j.getObjVal? k with
  | .ok (.str s) => pure s
  | _ => throw s!"missing string field {k}"

def getNatS (j : Json) (k : String) : Except String Nat := do
  let s ← getStr j k
  match s.toNat? with
  | some n => pure n
  | none => throw s!"field {k} is not a natural number"

def natS (n : Nat) : Json := Json.str (toString n)

namespace TimeOps
open O2P.Time

def opFromNanos (j : Json) : Except String Json := do
  let n ← getNatS j "n"
  let x0 := fl n 1
  let x1 := fl x0.num (x0.den * O2P.Gen.nanoDivisor)
  let p := fromNanosParts n
  pure <| Json.mkObj [("s", Json.str (String.ofList (O2P.Time.fromNanos n))), ("secs", natS p.1), ("us", natS p.2),
    ("x1num", natS x1.num), ("x1den", natS x1.den), ("micros", natS (fromNanosMicros n))]

def opToNanos (j : Json) : Except String Json := do
  let s ← getStr j "s"
  pure <| Json.mkObj [("n", match O2P.Time.toNanos s.toList with
    | some n => natS n
    | none => Json.null)]

def opFormatMicros (j : Json) : Except String Json := do
  let k ← getNatS j "k"
  pure <| Json.mkObj [("s", Json.str (String.ofList (O2P.Time.formatMicros k)))]

end TimeOps

def handle (j : Json) : Except String Json := do
  let op ← getStr j "op"
  match op with
  | "time.fromNanos" => TimeOps.opFromNanos j
  | "time.toNanos" => TimeOps.opToNanos j
  | "time.formatMicros" => TimeOps.opFormatMicros j
  | _ => throw s!"unknown op {op}"

partial def loop (h : IO.FS.Stream) (out : IO.FS.Stream) : IO Unit := do
  let line ← h.getLine
  if line.isEmpty then return ()
  let reply := match Json.parse line with
    | .ok j => match handle j with
      | .ok r => r
      | .error e => Json.mkObj [("error", Json.str e)]
    | .error e => Json.mkObj [("error", Json.str s!"bad json: {e}")]
  out.putStrLn reply.compress
  loop h out

def main : IO Unit := do
  loop (← IO.getStdin) (← IO.getStdout)
