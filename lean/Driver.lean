import Lean.Data.Json
open Lean

partial def loop (h : IO.FS.Stream) (out : IO.FS.Stream) : IO Unit := do
  let line ← h.getLine
  if line.isEmpty then return ()
  match Json.parse line with
  | .ok j => out.putStrLn (Json.compress (Json.mkObj [("echo", j)]))
  | .error e => out.putStrLn (Json.compress (Json.mkObj [("error", Json.str e)]))
  loop h out

def main : IO Unit := do
  loop (← IO.getStdin) (← IO.getStdout)
