import Lean.Data.Json
import O2P.Model.Time
import O2P.Model.Seq
import O2P.Model.Store
import O2P.Model.Jq
/-!
Model driver: one JSON request per line on stdin, one JSON reply per line on stdout.
Numbers that may exceed 2^53 travel as decimal strings.
-/
open Lean

def getStr (j : Json) (k : String) : Except String String := do
  match j.getObjVal? k with
  | .ok (.str s) => pure s
  | _ => throw s!"missing string field {k}"

def getNatS (j : Json) (k : String) : Except String Nat := do
  let s ← getStr j k
  match s.toNat? with
  | some n => pure n
  | none => throw s!"field {k} is not a natural number"

def natS (n : Nat) : Json := Json.str (toString n)

namespace TimeOps
open O2P.Time

def opFromNanos (j : Json) : Except String Json := do
  let n ← getNatS j "n"
  let x0 := fl n 1
  let x1 := fl x0.num (x0.den * O2P.Gen.nanoDivisor)
  let p := fromNanosParts n
  pure <| Json.mkObj [("s", Json.str (String.ofList (O2P.Time.fromNanos n))), ("secs", natS p.1), ("us", natS p.2),
    ("x1num", natS x1.num), ("x1den", natS x1.den), ("micros", natS (fromNanosMicros n))]

def opToNanos (j : Json) : Except String Json := do
  let s ← getStr j "s"
  pure <| Json.mkObj [("n", match O2P.Time.toNanos s.toList with
    | some n => natS n
    | none => Json.null)]

def opFormatMicros (j : Json) : Except String Json := do
  let k ← getNatS j "k"
  pure <| Json.mkObj [("s", Json.str (String.ofList (O2P.Time.formatMicros k)))]

end TimeOps

def getArr (j : Json) (k : String) : Except String (Array Json) := do
  match j.getObjVal? k with
  | .ok (.arr a) => pure a
  | _ => throw s!"missing array field {k}"

def getIntS (j : Json) (k : String) : Except String Int := do
  let s ← getStr j k
  match s.toInt? with
  | some n => pure n
  | none => throw s!"field {k} is not an integer"

def getBool (j : Json) (k : String) : Except String Bool := do
  match j.getObjVal? k with
  | .ok (.bool b) => pure b
  | _ => throw s!"missing bool field {k}"

def strList (a : Array Json) : Except String (List String) :=
  a.toList.mapM fun x => match x with
    | .str s => pure s
    | _ => throw "expected string"

def pairList (a : Array Json) : Except String (List (String × String)) :=
  a.toList.mapM fun x => match x with
    | .arr #[.str k, .str v] => pure (k, v)
    | _ => throw "expected [string, string]"

namespace SeqOps
open O2P.Seq

structure Flat where
  span : Span
  parent : Option String
  kids : List String

def parseFlat (j : Json) : Except String Flat := do
  let id ← getStr j "id"
  let typ ← getStr j "typ"
  let start ← getIntS j "start"
  let stop ← getIntS j "end"
  let parent := match j.getObjVal? "parent" with
    | .ok (.str p) => some p
    | _ => none
  let kids ← strList (← getArr j "children")
  pure { span := { id, typ, start, stop }, parent, kids }

/-- glue (not part of the proved model): flat id map → rose tree, children in `child_event_ids` order -/
def build (fs : List Flat) : Nat → String → Except String Tree
  | 0, _ => throw "cycle"
  | fuel + 1, id => do
    match fs.find? (·.span.id == id) with
    | none => throw "missing-child"
    | some f =>
      let cs ← f.kids.mapM (build fs fuel)
      pure (.node f.span cs)

def parseCfg (j : Json) : Except String Cfg := do
  let async ← getBool j "async"
  let groups ← (← getArr j "groups").toList.mapM fun g => do
    let p ← getStr g "parent"
    let m ← pairList (← getArr g "map")
    pure (p, m)
  let renames ← (← getArr j "renames").toList.mapM fun r => do
    let f ← getStr r "from"
    let t ← getStr r "to"
    let c ← strList (← getArr r "children")
    pure (f, t, c)
  pure { async, groups, renames }

partial def typesOf : Tree → List (String × String)
  | .node s cs => (s.id, s.typ) :: (cs.map typesOf).flatten

/-- `sequence_otel_jobs` on one job given as the flat id map the code receives -/
def job (j : Json) : Except String Json := do
  let cfg ← parseCfg j
  let fs ← (← getArr j "spans").toList.mapM parseFlat
  -- convert_otel_event_stream_to_event_id_to_otelevent_map: every referenced parent must be present
  if fs.any (fun f => match f.parent with
      | some p => !(fs.any (·.span.id == p))
      | none => false) then
    return Json.mkObj [("status", "disconnected")]
  match fs.filter (·.parent.isNone) with
  | [r] =>
    match build fs (fs.length + 1) r.span.id with
    | .error e => pure <| Json.mkObj [("status", Json.str e)]
    | .ok t =>
      let (t', links) := sequence cfg t
      pure <| Json.mkObj [("status", "ok"),
        ("links", Json.arr (links.map fun (i, ps) => Json.arr #[Json.str i, Json.arr (ps.map Json.str).toArray]).toArray),
        ("types", Json.arr ((typesOf t').map fun (i, ty) => Json.arr #[Json.str i, Json.str ty]).toArray)]
  | _ => pure <| Json.mkObj [("status", "rootcount")]

end SeqOps

namespace StoreOps
open O2P.Store

def parseNode (j : Json) : Except String Node := do
  pure { jobName := ← getStr j "jobName", jobId := ← getStr j "jobId", typ := ← getStr j "typ",
         id := ← getStr j "id", start := ← getIntS j "start", stop := ← getIntS j "end",
         app := ← getStr j "app",
         -- `convert_otel_event_to_node_model`: `parent_event_id or None` (the empty string is falsy)
         parent := match j.getObjVal? "parent" with
           | .ok (.str p) => if p.isEmpty then none else some p
           | _ => none }

def nodeJson (n : Node) : Json :=
  Json.mkObj [("jobName", n.jobName), ("jobId", n.jobId), ("typ", n.typ), ("id", n.id),
    ("start", Json.str (toString n.start)), ("end", Json.str (toString n.stop)), ("app", n.app),
    ("parent", match n.parent with
      | some p => Json.str p
      | none => Json.null)]

partial def shapeJson : Shape → Json
  | .mk t cs => Json.arr (#[Json.str t] ++ (cs.map shapeJson).toArray)

def parseFilter (j : Json) : Except String (Option (List (String × List String))) :=
  match j with
  | .null => pure none
  | .arr a => do
    let l ← a.toList.mapM fun e => match e with
      | .arr #[.str nm, .arr ids] => do pure (nm, ← strList ids)
      | _ => throw "bad filter entry"
    pure (some l)
  | _ => throw "bad filter"

def outcomeJson : Outcome → Json
  | .ok => "ok"
  | .integrity => "integrity"

def step (batch : Nat) (buffer : Int) (h : Holder) (st : Json) : Except String (Holder × Json) := do
  match st with
  | .arr a =>
    let tag : Option Json := a[0]?
    let arg : Option Json := a[1]?
    match tag with
    | some (.str "newrun") => pure (Holder.fresh h.store, "ok")
    | some (.str "ingest") =>
      let evs ← match arg with
        | some (.arr es) => es.toList.mapM parseNode
        | _ => throw "ingest needs events"
      let (h1, o) := ingest batch h evs
      pure (h1, outcomeJson o)
    | some (.str "clean_inconsistent") => pure ({ h with store := removeInconsistent h.store }, "ok")
    | some (.str "clean_window") =>
      match timeWindow buffer h with
      | none => pure (h, "valueerror")
      | some w => pure ({ h with store := removeOutside w h.store }, "ok")
    | some (.str "rename") => pure ({ h with store := renameByRoot h.store }, "ok")
    | some (.str "unique") =>
      match timeWindow buffer h with
      | none => pure (h, "valueerror")
      | some w =>
        match computeHashes w h.store with
        | none => pure (h, "integrity")
        | some s1 =>
          let cls := shapeClasses s1
          pure ({ h with store := s1 }, Json.arr (cls.map fun (nm, sh, ids) =>
            Json.mkObj [("name", nm), ("shape", shapeJson sh), ("ids", Json.arr (ids.map Json.str).toArray)]).toArray)
    | some (.str "stream") =>
      let filt ← parseFilter (arg.getD Json.null)
      let r := stream h.store filt
      pure (h, Json.arr (r.map fun (nm, jobs) => Json.arr #[Json.str nm, Json.arr (jobs.map fun (jid, ns) =>
        Json.arr #[Json.str jid, Json.arr (ns.map fun n =>
          Json.mkObj [("node", nodeJson n), ("children", Json.arr ((childrenOf h.store n.id).map Json.str).toArray)]).toArray]).toArray]).toArray)
    | some (.str "run") =>
      -- ["run", ingest?, unique?, [events]]: one whole run in a new process
      let a1 : Option Json := a[1]?
      let a2 : Option Json := a[2]?
      let a3 : Option Json := a[3]?
      let ing := match a1 with | some (.bool b) => b | _ => false
      let uq := match a2 with | some (.bool b) => b | _ => false
      let evs ← match a3 with
        | some (.arr es) => es.toList.mapM parseNode
        | _ => pure []
      let (s1, st) := runOnce batch buffer ing uq evs h.store
      let stj : Json := match st with
        | .ok => "ok"
        | .integrity => "integrity"
        | .valueerror => "valueerror"
      let cls := shapeClasses s1
      pure (Holder.fresh s1, Json.mkObj [("status", stj),
        ("classes", if uq && st == .ok then Json.arr (cls.map fun (nm, sh, ids) =>
            Json.mkObj [("name", nm), ("shape", shapeJson sh), ("ids", Json.arr (ids.map Json.str).toArray)]).toArray
          else Json.null)])
    | some (.str "dump") =>
      pure (h, Json.mkObj [("nodes", Json.arr (h.store.nodes.map nodeJson).toArray),
        ("assoc", Json.arr (h.store.assoc.map fun (p, c) => Json.arr #[Json.str p, Json.str c]).toArray),
        ("hashes", Json.arr (h.store.hashes.map fun (jid, nm, _) => Json.arr #[Json.str jid, Json.str nm]).toArray)])
    | _ => throw "unknown step"
  | _ => throw "step must be an array"

def script (j : Json) : Except String Json := do
  let batch ← getNatS j "batch"
  let buffer ← getIntS j "buffer"
  let steps ← getArr j "script"
  let mut h := Holder.fresh Store.empty
  let mut out : Array Json := #[]
  for st in steps do
    let (h1, r) ← step batch buffer h st
    h := h1
    out := out.push r
  pure (Json.mkObj [("results", Json.arr out)])

end StoreOps

namespace JqOps
abbrev JV := O2P.Jq.Json

/-- documents travel in a tagged form that keeps key order and big integers:
["z"] null, ["b", bool], ["n", "123"], ["s", str], ["a", [..]], ["o", [[k, v], ..]] -/
partial def decode (j : Json) : Except String JV := do
  match j with
  | .arr #[.str "z"] => pure O2P.Jq.Json.null
  | .arr #[.str "b", .bool b] => pure (O2P.Jq.Json.bool b)
  | .arr #[.str "n", .str n] => match n.toInt? with
    | some i => pure (O2P.Jq.Json.num i)
    | none => throw "bad number"
  | .arr #[.str "s", .str s] => pure (O2P.Jq.Json.str s)
  | .arr #[.str "a", .arr xs] => do pure (O2P.Jq.Json.arr (← xs.toList.mapM decode))
  | .arr #[.str "o", .arr kvs] => do
    let l ← kvs.toList.mapM fun kv => match kv with
      | .arr #[.str k, v] => do pure (k, ← decode v)
      | _ => throw "bad object entry"
    pure (O2P.Jq.Json.obj l)
  | _ => throw "bad tagged json"

partial def encode : JV → Json
  | .null => Json.null
  | .bool b => Json.bool b
  | .num n => Json.mkObj [("$int", Json.str (toString n))]
  | .str s => Json.str s
  | .arr l => Json.arr (l.map encode).toArray
  | .obj kv => Json.mkObj (kv.map fun (k, v) => (k, encode v))

def optStr (j : Json) (k : String) : Option String :=
  match j.getObjVal? k with
  | .ok (.str s) => some s
  | _ => none

def parseMapping (j : Json) : Except String (List (String × O2P.Jq.FieldSpecN)) := do
  let fs ← getArr j "mapping"
  fs.toList.mapM fun f => do
    let name ← getStr f "name"
    let isArray ← getBool f "array"
    let parts ← (← getArr f "parts").toList.mapM fun p => match p with
      | .arr alts => alts.toList.mapM fun a => do
          pure ({ keyPath := ← getStr a "kp", keyValue := optStr a "kv", valuePath := optStr a "vp" } : O2P.Jq.AltSpec)
      | _ => throw "part must be an array"
    pure (name, ({ parts, isArray } : O2P.Jq.FieldSpecN))

def eventJson (e : O2P.Jq.Event) : Json :=
  Json.mkObj [("job_name", e.jobName), ("job_id", e.jobId), ("event_type", e.eventType), ("event_id", e.eventId),
    ("start_timestamp", Json.str (toString e.start)), ("end_timestamp", Json.str (toString e.stop)),
    ("application_name", e.app),
    ("parent_event_id", match e.parent with
      | some p => Json.str p
      | none => Json.null),
    ("child_event_ids", match e.children with
      | some l => Json.arr (l.map Json.str).toArray
      | none => Json.null)]

def run (j : Json) : Except String Json := do
  let m ← parseMapping j
  let docs ← (← getArr j "docs").toList.mapM decode
  let p := O2P.Jq.compile m
  let recs := docs.map fun d => (O2P.Jq.extract p d).map fun r => Json.mkObj (r.map fun (k, v) => (k, encode v))
  pure <| Json.mkObj [("records", Json.arr (recs.map fun rs => Json.arr rs.toArray).toArray),
    ("events", Json.arr ((O2P.Jq.source p docs).map eventJson).toArray)]

end JqOps

def handle (j : Json) : Except String Json := do
  let op ← getStr j "op"
  match op with
  | "time.fromNanos" => TimeOps.opFromNanos j
  | "time.toNanos" => TimeOps.opToNanos j
  | "time.formatMicros" => TimeOps.opFormatMicros j
  | "seq.job" => SeqOps.job j
  | "store.script" => StoreOps.script j
  | "jq.run" => JqOps.run j
  | _ => throw s!"unknown op {op}"

partial def loop (h : IO.FS.Stream) (out : IO.FS.Stream) : IO Unit := do
  let line ← h.getLine
  if line.isEmpty then return ()
  let reply := match Json.parse line with
    | .ok j => match handle j with
      | .ok r => r
      | .error e => Json.mkObj [("error", Json.str e)]
    | .error e => Json.mkObj [("error", Json.str s!"bad json: {e}")]
  out.putStrLn reply.compress
  loop h out

def main : IO Unit := do
  loop (← IO.getStdin) (← IO.getStdout)
