-- Root of the `O2P` library: models, generated facts, property theorems.
import O2P.Props.C01
import O2P.Props.C02
import O2P.Props.C03
import O2P.Props.C04
import O2P.Props.C05
import O2P.Props.C06
import O2P.Props.C07
import O2P.Props.C08
import O2P.Props.C09
import O2P.Props.C10
import O2P.Props.C11
import O2P.Props.C12
import O2P.Props.C13
import O2P.Props.C14
import O2P.Props.C15Full
import O2P.Props.C16
