-- This module serves as the root of the `O2P` library.
-- Import modules here that should be built as part of the library.
import O2P.Basic
