-- Root of the `O2P` library: models, generated facts, property theorems.
import O2P.Props.C16
