-- Root of the `O2P` library: models, generated facts, property theorems.
import O2P.Props.C08
import O2P.Props.C09
import O2P.Props.C10
import O2P.Props.C11
import O2P.Props.C12
import O2P.Props.C13
import O2P.Props.C15
import O2P.Props.C16
